#!/venv/bin/python
import glob, json, sys
import jsonschema
sch = json.load(open("/root/.vp/EVIDENCE.schema.json"))
bad = 0
for f in sorted(glob.glob("/verif/evidence/*.json")):
    e = json.load(open(f))
    try:
        jsonschema.validate(e, sch)
        c = e["coverage"]
        print(f"{e['property_id']} {e['tier']:8s} ok  evals={c['evaluations']} distinct={c['distinct_nontrivial']} verdict={c.get('verdict')} wall={e['wall_s']}")
    except jsonschema.ValidationError as ex:
        bad += 1
        print(f, "INVALID", ex.message[:200])
sys.exit(1 if bad else 0)
