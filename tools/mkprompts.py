#!/venv/bin/python
"""tools/mkprompts.py <wave-number> <suffix>  - write the sub-agent prompts of a seeding wave to /tmp/prompts<wave>/Cxx.txt.
Each prompt holds ONE property (text only), the agent's own scratch worktree /tmp/w<wave>-Cxx (created here from /repo HEAD),
and the one-line descriptions of what earlier agents used (so that a different clause / mechanism is chosen).  Nothing from
/verif other than those one-liners is disclosed."""
import glob, json, os, subprocess, sys
wave, suffix = sys.argv[1], sys.argv[2]
only = sys.argv[3].split(',') if len(sys.argv) > 3 else None   # optional: a subset of ids (mini-wave)
os.makedirs(f"/tmp/prompts{wave}", exist_ok=True)
for l in open('/verif/properties.jsonl'):
    p = json.loads(l); pid = p['id']
    if only and pid not in only: continue
    wt = f"/tmp/w{wave}-{pid}"
    if not os.path.isdir(wt):
        subprocess.run(["git", "-C", "/repo", "worktree", "add", "-q", wt, "HEAD"], check=True)
    taken = [json.load(open(f))['needs_to_manifest'] for f in sorted(glob.glob(f'/verif/seeded/{pid}*/meta.json'))]
    taken_txt = "\n".join(f'{i + 1}. "{t}"' for i, t in enumerate(taken))
    anchors = p.get('anchors', {})
    text = f"""You are helping test the robustness of a verification effort for the Python library `mappyfile` (a parser / dict transformer / JSON-schema validator / pretty-printer for MapServer Mapfiles). You get ONE semantic property of the library and your own scratch git worktree of the repository. Your job: craft a realistic code change (a "seeded defect") to the library that BREAKS this property while the library still imports and the repository's existing test-suite still passes, plus a small demonstration program that fails with your change and passes without it.

## The property ({pid}: {p['title']})

STATEMENT: {p['statement']}

QUANTIFIER (what inputs / configurations / histories it ranges over): {p['quantifier']['text']}

WHY THE EXISTING TESTS CANNOT SETTLE IT: {p['why_tests_cant']}

CODE ANCHORS (files / mechanisms meant to make it hold): {json.dumps(anchors)[:2500]}

## Already taken by {len(taken)} other engineers - you must find a different one

{taken_txt}

Pick a clause of the property and a mechanism / code site that none of them touched. Make it HARD to find: think about which inputs a diligent tester with a random document generator, a schema-driven keyword sweep and the shipped sample files would still be unlikely to produce, and aim there. Good hunting grounds: a clause mentioned only in passing in the statement; one particular object type, keyword, value shape, option VALUE (not just the option) or nesting out of hundreds; an interaction of two features (an option together with a value shape; two options together; an edit followed by another call); unusual but legal values (very long, empty, one character, extreme numbers, a value equal to a keyword, unusual Unicode); `mappyfile/mapfile.lark` or one `mappyfile/schemas/*.json` file; state that leaks between two calls; a defect that needs TWO small edits in different places that each look harmless; something visible only through one front end (file / stream / CLI / string); something that depends on the ENVIRONMENT of the call (working directory, PYTHONHASHSEED, locale / default encoding, recursion limit, an earlier call in the same process, objects shared between calls); the less-used public entry points (Parser / MapfileToDict / PrettyPrinter / Validator classes used directly, dump to a file object, save, load from a stream, the option values nobody passes); values at the edge of what a keyword accepts (minimum / maximum, empty, exactly one element, the longest legal form).

## Your scratch worktree

`{wt}` is a git worktree of the repository (library code in `{wt}/mappyfile/`, tests in `{wt}/tests/` and `{wt}/docs/examples/`). Work ONLY inside `{wt}`. Do not touch `/repo`, do not look at or touch `/verif`, and do not use the network (there is none). IMPORTANT: do NOT use `git stash` (the stash is shared between worktrees and other people are working in sibling worktrees). To test the untouched behaviour use `git diff -- mappyfile > /tmp/{pid}.w{wave}.diff && git apply -R /tmp/{pid}.w{wave}.diff` and afterwards `git apply /tmp/{pid}.w{wave}.diff`. Put any scratch files of your own under `{wt}/_scratch/`, not directly in /tmp.

Python: `/venv/bin/python` (3.12). IMPORTANT: the venv has an editable install of the original repo, so always run with `PYTHONPATH={wt}` and confirm with `PYTHONPATH={wt} /venv/bin/python -c "import mappyfile; print(mappyfile.__file__)"` that `{wt}/mappyfile/__init__.py` is what gets imported.

Existing test-suite command (must still pass with your change; `tests/test_map_collection.py::test_maps` fails on the untouched tree too and is excluded):
`cd {wt} && PYTHONPATH={wt} /venv/bin/python -m pytest -q -p no:cacheprovider -n 4 --deselect tests/test_map_collection.py::test_maps`
(expect "249 passed" plus a few xfailed).

## What kind of change

- Edit only files under `{wt}/mappyfile/` (Python code, `mapfile.lark`, or `schemas/*.json`). Keep it small (a few lines), plausible as something a maintainer could commit by mistake.
- It must break the property above as stated (be careful that what you break is really promised by the STATEMENT and lies inside the QUANTIFIER - not merely something adjacent). It should need something SPECIFIC to manifest; avoid changes that ordinary use would expose at once.
- It must NOT be caught by the existing test-suite (run it!).

## Deliverables (all inside `{wt}/_seed/`)

1. `patch.diff` - output of `cd {wt} && git diff -- mappyfile` for your final change (only library files).
2. `demo.py` - a standalone program (run as `PYTHONPATH=<tree> /venv/bin/python demo.py`) that exits 0 when the property holds for its scenario and exits 1 (printing what went wrong) when it is violated. It must exit 1 with your change and exit 0 on the untouched tree. Verify both. Keep its run time under a minute.
3. `notes.md` - which clause of the property the change breaks (quote it), what exactly is needed for it to manifest, and the commands you ran with their results.

Leave your change applied in the worktree (uncommitted) when you finish. Reply with a short summary: the idea of the change, what it needs to manifest, and confirmation of the three verification results.
"""
    open(f"/tmp/prompts{wave}/{pid}.txt", "w").write(text)
print('ok')
