#!/usr/bin/env python3
"""tools/seedtable.py - print the DESIGN.md 8.4 table from seeded/*/meta.json"""
import glob, json, os, re
rows = []
for f in sorted(glob.glob(os.path.join(os.path.dirname(__file__), "..", "seeded", "C*", "meta.json"))):
    name = os.path.basename(os.path.dirname(f))
    m = json.load(open(f))
    own = m["property"]
    status = "caught"
    by = []
    for k, v in m["checks"].items():
        chk = k.split()[0]
        if ("committed version" in k or "(before" in k) and chk == own:
            status = "**missed** -> check widened" if v.startswith(("MISSED", "not run")) else "caught, thinly -> widened"
            continue
        if v.startswith("VIOLATED"):
            tag = chk + (" (widened)" if "after" in k else "")
            if chk not in [b.split()[0] for b in by]:
                by.append(tag)
    by.sort()
    rows.append(f"| `seeded/{name}` | {m['needs_to_manifest']} | {status} | {'; '.join(by)} |")
print("| seed | what the change needs in order to manifest | committed check at the time | caught by (quick tier) |")
print("|---|---|---|---|")
print("\n".join(rows))
