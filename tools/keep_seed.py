#!/venv/bin/python
"""tools/keep_seed.py <name> <property> <seed-dir> '<needs>' '<caught-by json>' '<ran>'  - archive a confirmed seeded change"""
import json, os, shutil, sys
name, prop, sd, needs, caught, ran = sys.argv[1:7]
dst = f"/verif/seeded/{name}"
os.makedirs(dst, exist_ok=True)
for f in ("patch.diff", "demo.py", "notes.md"):
    if os.path.exists(os.path.join(sd, f)):
        shutil.copy(os.path.join(sd, f), os.path.join(dst, f))
meta = {"property": prop, "breaks": prop, "needs_to_manifest": needs, "source": "independent sub-agent given only the property text and a scratch worktree",
        "confirmed": {"patch_applies_to_repo_head": True, "repo_tests_pass_with_change": True, "demo_exit_with_change": 1,
                      "demo_exit_without_change": 0}, "checks": json.loads(caught), "what_was_run": ran}
json.dump(meta, open(os.path.join(dst, "meta.json"), "w"), indent=1)
print("kept", dst)
