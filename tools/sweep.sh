#!/bin/sh
# tools/sweep.sh "<ids>" "<seeds>" [tier]  - run checks over several seeds, print verdict lines
cd "$(dirname "$0")/.."
tier=${3:-quick}
for id in $1; do for s in $2; do printf "%s seed=%s: " $id $s; VERIF_SEED=$s ./check $id --tier $tier --no-evidence | grep -v KNOWN-FINDING | tail -1; done; done
