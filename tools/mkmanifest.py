#!/venv/bin/python
"""Regenerates MANIFEST.json from the table below (run after adding a check).  python tools/mkmanifest.py"""
import json
import os
import sys

HERE = os.path.dirname(os.path.dirname(os.path.abspath(__file__)))
sys.path.insert(0, HERE)

BASELINE_OFF = ("cd /repo && env -u MAPPYFILE_VERIF /venv/bin/python -m pytest -ra -q -p no:cacheprovider "
                "--timeout=900 --continue-on-collection-errors")

# id -> (technique, level text, level note, design ref)
CHECKS = {
    "C01": ("boundary-history relation over (parse, pprint, parse) events with an independent round-trip equivalence; "
            "allowed differences decided by an independent schema reader",
            "Vocabulary sweep of every (object, keyword, alternative) slot and enum member, the 451-file corpus and random "
            "schema-generated documents under random surface renderings are loaded, written under both quote characters and "
            "re-loaded. Held on the round trips observed; documented exclusions are counted, not judged.",
            "Trusted: mf/vocab.py + mf/relations.py (allowed-difference rule), mf/gen.py/render.py (what a document means).",
            "DESIGN.md 2 C01"),
    "C02": ("expected-vs-observed relation: loads(render(IR)) against the dictionary the documented contract promises for the "
            "generator's intended structure; icontract postcondition on MapfileToDict.transform; duplicate-key log records",
            "Exhaustive vocabulary sweep x 4 positions plus random documents (depth <= 5) written by an independent renderer; "
            "every key, type, order and nesting compared. Held on the documents observed.",
            "Trusted: mf/expect.py as a restatement of docs/transformer.rst; mf/exprmodel.py for expression values.",
            "DESIGN.md 2 C02"),
    "C03": ("icontract postcondition on the real PrettyPrinter.pprint: the returned text is read by an independent scanner and "
            "walked in lock-step with the dictionary (lexical class per value decided by an independent schema reader)",
            "Vocabulary dictionaries built without the parser, generated/loaded documents, corpus files and 1-30 step dict-API "
            "edit histories (incl. reads of missing keys) printed through dumps/dump/save/pprint; every call is judged; a sample "
            "(every refused dictionary first) is printed again by child interpreters started with -O / -OO and must give the same "
            "text or refusal. Held on the calls observed; precondition failures are counted as skipped.",
            "Trusted: mf/reader.py (scanner), mf/printcheck.py (walker), mf/vocab.py (required lexical class).",
            "DESIGN.md 2 C03"),
    "C04": ("boundary-history relations: byte equality of two successive formatting passes, exact equality of their loads, and "
            "same-input-same-text across reused/fresh printers and (thorough) across PYTHONHASHSEED subprocesses",
            "Corpus files and generated documents x formatter option sets (quick: pairwise-covering subset; thorough: all 864 on a "
            "slice). Held on the (document, option set) pairs observed.",
            "Trusted: nothing beyond string / dictionary equality.",
            "DESIGN.md 2 C04"),
    "C05": ("metamorphic relation over recorded parse events: all surface renderings of one intended structure, and a corpus "
            "file and its whitespace/comment perturbations, must give identical dictionaries",
            "8 random surfaces per generated document (keyword case, separators incl. FF/CRLF/comments, quote style, bare words, "
            "layouts), vocabulary sweep in lower/random case, every corpus inter-token gap rewritten 4 ways. Held on what was observed.",
            "Trusted: mf/render.py varies only what the property lists; corpus gaps located with mappyfile's own lexer (inputs only).",
            "DESIGN.md 2 C05"),
    "C06": ("relation over recorded (pprint, parse) events: load of every option-formatted text vs load of the default formatting; "
            "separate_complex_types judged against an exactly computed reordering (block-valued keys decided from values)",
            "Corpus, generated and vocabulary documents x the option cross product (quick: pairwise-covering ~48 sets; thorough: all "
            "864 on every 12th document). Held on the pairs observed.",
            "Trusted: the definition of block-valued key in mf/workloads/C06.py (values printed with an END).",
            "DESIGN.md 2 C06"),
    "C07": ("independent conformance verdict (own schema loading / $ref inlining / lower-casing; jsonschema evaluator shared) + "
            "fault injection with known locations + metamorphic relations + icontract never-raises contract on Validator.validate",
            "Schema-valid generated documents of all 19 root types (zero messages), single and double faults of six kinds at every "
            "object depth / list index (all 62 applicable (object type, fault kind) pairs), plus every loadable vocabulary, corpus "
            "and mutated document. Held on the validate calls observed.",
            "Trusted: jsonschema's Draft-4 evaluator and the schema files (shared with mappyfile); mf/schemamodel.py.",
            "DESIGN.md 2 C07"),
    "C08": ("contract on the parse result with the renderer's own token map as ground truth; renderer-free contract on the corpus; "
            "error locations by fault injection with known token positions",
            "Generated documents x surface renderings (tabs, form feeds, CRLF, comments, multi-line strings/comments, several keywords "
            "per line): every opener/keyword position compared, value positions checked for source order; message locations for "
            "1-2 injected faults. Held on the tokens observed.",
            "Trusted: mf/render.py position tracking (LF counts a line, tab one column).",
            "DESIGN.md 2 C08"),
    "C09": ("exhaustive sweep of annotated schema entries x contexts x boundary versions judged against an independent verdict (own "
            "inlining + own recursive pruning + jsonschema evaluator); icontract postcondition on get_versioned_schema; history "
            "relation one-Validator vs fresh-Validator",
            "All 110 annotated entries (keywords, value alternatives, connectionoptions) in every parent chain from MAP and as root, "
            "versions at/below/above each bound plus every distinct bound and none (exhaustive, ~5.9k validations); random histories "
            "of validate/export calls on one Validator. Held on what was evaluated.",
            "Trusted: jsonschema evaluator + schema files (shared); mf/schemamodel.prune as the statement of the version rule.",
            "DESIGN.md 2 C09"),
    "C10": ("boundary relation: intended expression tree vs the string stored by the real parser, read back by an "
            "independent tokenizer + precedence parser; fixed-point and printed-unquoted relations on the same events",
            "All operator structures up to 3 (quick) / 4 (thorough) operators and random trees up to 12 operators, every "
            "operator spelling and leaf kind, six host keywords; each stored string is parsed under the property's "
            "precedence table and compared with the tree the generator intended. Held on the trees observed.",
            "Trusted: mf/exprmodel.py (precedence table as stated in the property); numbers compared by value.",
            "DESIGN.md 2 C10"),
    "C11": ("exception-family contract on the parse boundary + sys.monitoring logical step counter and CPU-time envelope "
            "calibrated on the corpus in the same run",
            "Structure-aware token mutations of corpus/generated documents, vocabulary token soups, unterminated constructs, every "
            "block type at the root and long repetitive inputs (quick <= 200 kB, thorough <= 1 MB). 'Terminates promptly' is restated "
            "as bounded logical steps and CPU per input; every sixth input is parsed again with the library's logger at DEBUG / INFO "
            "(same outcome class); held on the inputs observed.",
            "Trusted: envelope constants derived from the corpus calibration; Lark's exception hierarchy.",
            "DESIGN.md 2 C11"),
    "C12": ("icontract snapshot+ensure purity contracts (argument fingerprints) on the real public functions + audit hook (no writes); "
            "history relation reused-vs-fresh worker objects with hidden state asserted at quiescent points; thread stress under a "
            "1e-5 s switch interval and a sys.monitoring yield injector, compared with the sequential reference",
            "Purity over vocabulary/generated/corpus/edited dictionaries; reuse sequences mixing failing parses, comments, positions "
            "and versions; 6-16 threads on different and identical inputs with the thread switches inside mappyfile code counted. "
            "'Any schedule' is restated as the interleavings actually observed.",
            "Trusted: canonical fingerprints (mf/core.py); the GIL schedules produced under yield injection are a sample, not all schedules.",
            "DESIGN.md 2 C12"),
    "C13": ("relation over four recorded parse events (include_position x include_comments, through loads/open/load) and their "
            "print events; 'apart from comment text' decided by an independent scanner",
            "All corpus files and generated documents with random and placed comments; stripped results must equal the plain load "
            "exactly and print the same non-comment token stream. Held on the (document, flags) pairs observed.",
            "Trusted: mf/reader.py comment scanner (cross-checked against the lexer on 9,798 corpus comments).",
            "DESIGN.md 2 C13"),
    "C14": ("offline checker over recorded (source comments, output comments): multiset containment with decomposition of "
            "single-space joins, content relation, and placement relations for uniquely numbered comments placed by the renderer",
            "Generated one-keyword-per-line documents with numbered comments at the claimed placements (all four clauses), gap-comment "
            "documents and the corpus (three universal clauses), LF and CRLF. Held on the documents observed.",
            "Trusted: mf/reader.py; the renderer's record of which keyword / opener each comment was attached to.",
            "DESIGN.md 2 C14"),
    "C15": ("relation open/load/loads(include tree) == loads(independently flattened text) + sys.addaudithook observation of the "
            "files actually opened (path resolution) + outcome contract at the depth boundary, for cycles and missing files",
            "Random include trees (fan-out <= 4, depth 0..7, sub-directories, absolute/relative, quoted/unquoted, comments, CRLF) "
            "cut from generated documents, loaded through the three front ends from different working directories; "
            "expand_includes=False round trip. Held on the trees observed.",
            "Trusted: flatten() over the generator's own tree; completeness of 'open' audit events.",
            "DESIGN.md 2 C15"),
    "C16": ("icontract postcondition on the real PrettyPrinter.pprint (layout part): per-line indentation, END placement, END "
            "comments, line-break characters and alignment column computed from an independent reading of the output",
            "Vocabulary, generated, loaded (with comments), edited and corpus dictionaries x the formatter option sets of C06 "
            "(quick: pairwise-covering subset; thorough: all 864). Held on the lines observed.",
            "Trusted: mf/reader.py, mf/printcheck.py layout rules as a restatement of the property.",
            "DESIGN.md 2 C16"),
    "C17": ("reference-model shadow stepped in lock-step with the real dict + icontract class invariant, over an "
            "exhaustive BFS of abstract states and random walks",
            "Every operation sequence up to the stated depth over a 7-key / 4-value alphabet is executed on the real "
            "class and compared with a 70-line model after every step; copy/deepcopy/pickle/construction probes at "
            "every new state. Held-on-observed-executions, exhaustive to the depth bound only.",
            "Trusted: mf/odmodel.py as a restatement of the property; Python's OrderedDict; icontract.",
            "DESIGN.md 2 C17"),
    "C18": ("icontract snapshot+ensure contracts on the real update/find/findall/findunique (all bindings rebound) "
            "compared per call with a reference implementation; findkey by identity with a manual walk",
            "Random targets/patches derived from the target and random object lists; each call of the real helpers is "
            "judged by a postcondition against mf/dictmodel.py, inputs outside the documented usage are observed but "
            "not judged. Held on the calls observed.",
            "Trusted: mf/dictmodel.py as a restatement of the documented laws; deep copies taken by the snapshot.",
            "DESIGN.md 2 C18"),
    "C19": ("finite exhaustive enumeration of the vocabulary under the parse (expect), print (independent reader) and validate oracles, "
            "plus grammar block-type list read at run time, observed storage key/shape vs parent schema and auto-creating dict, the "
            "printer's 'key not found' log record, defaults vs their own property schema and create() cycles",
            "Every grammar block type at the root, every (parent, child) pair, every (object, keyword, alternative) x position x "
            "context (root and nested in every parent chain from MAP), every default x version. Exhaustive over that finite product.",
            "Trusted: lexeme rules of mf/gen.py ('written the way MapServer writes it'); vocab/expect/printcheck/schemamodel.",
            "DESIGN.md 2 C19"),
    "C20": ("relations over API boundary events and real subprocess observations of the CLI (exit status, stdout lines, output "
            "file bytes) compared with what the public API says for the same files",
            "Unicode-plane string values cycled through open/load/loads and save/dump/dumps; `mappyfile format` with every option, "
            "`validate` over valid/invalid (1..300 problems)/unparseable file sets and versions, `schema --version`. Held on the "
            "cycles and invocations observed.",
            "Trusted: the API as the reference for what the CLI must do; subprocess exit status and files as observed.",
            "DESIGN.md 2 C20"),
}

NOT_APPLICABLE = {}

ALL = [f"C{i:02d}" for i in range(1, 21)]


def main():
    checks = []
    for pid in ALL:
        if pid not in CHECKS:
            continue
        tech, text, note, ref = CHECKS[pid]
        checks.append({
            "property_id": pid,
            "quick_cmd": f"./check {pid} --tier quick",
            "thorough_cmd": f"./check {pid} --tier thorough",
            "evidence_file": f"evidence/{pid}.json",
            "replay_cmd_template": f"./check {pid} --replay {{path}}",
            "engine": "mf",
            "level_claimed": {"category": "exploration", "text": text, "design_ref": ref},
            "level_note": note,
            "technique": "runtime monitoring: " + tech,
        })
    na = []
    for pid in ALL:
        if pid not in CHECKS:
            na.append({"property_id": pid,
                       "reason": NOT_APPLICABLE.get(pid, "check not built yet in this session (runtime monitoring applies; "
                                                         "see DESIGN.md section 2 for the planned monitor)")})
    m = {
        "version": 1,
        "setup_cmd": "./setup.sh",
        "hooks": {
            "guard": "MAPPYFILE_VERIF",
            "enable": "none needed: monitors (icontract contracts, boundary recorders, sys.monitoring / audit hooks) "
                      "attach to the real functions from the harness; the harness sets MAPPYFILE_VERIF=1 for its own "
                      "processes and the repository never reads it",
            "baseline_off_cmd": BASELINE_OFF,
            "source_commits": [],
            "add_only": True,
        },
        "engines": [{"name": "mf", "path": "mf/", "serves_properties": sorted(CHECKS),
                     "kind_free_text": "Python runtime-monitoring harness: sharded workloads, contracts on the real "
                                       "functions, reference-model shadows, boundary-history relations"}],
        "checks": checks,
        "not_applicable": na,
        "notes": "All checks import mappyfile from /repo's working tree on every run (no build step). Exit 0 held, "
                 "1 violation (VIOLATION line + replay file), 2 inconclusive (deciding monitor below its floor / dead worker).",
    }
    with open(os.path.join(HERE, "MANIFEST.json"), "w") as f:
        json.dump(m, f, indent=1)
        f.write("\n")
    import jsonschema
    jsonschema.validate(m, json.load(open("/root/.vp/MANIFEST.schema.json")))
    print("MANIFEST.json ok:", len(checks), "checks,", len(na), "not_applicable")


if __name__ == "__main__":
    main()
