#!/bin/sh
# tools/seedtest.sh <tree> "<ids>" [tier] [seed]  - run checks against another working tree (a seeded change applied there)
cd "$(dirname "$0")/.."
tree=$1; tier=${3:-quick}; seed=${4:-0}
for id in $2; do
  printf "%s on %s: " $id $tree
  MF_REPO=$tree VERIF_SEED=$seed ./check $id --tier $tier --no-evidence | grep -v KNOWN-FINDING | grep -E "VIOLAT|held|INCONCLUSIVE" | cut -c1-220 | tail -3
done
