#!/venv/bin/python
"""Self-validation (DESIGN.md section 6.2): apply each hand-written mutant to a scratch worktree of /repo (never to /repo
itself), confirm the repository's tests still pass, run the listed quick checks against the mutated tree and record
whether the monitor fired.   tools/mutants.py [name-substring ...]   -> seeded/design-mutants.json
"""
import json
import os
import re
import subprocess
import sys

WT = "/tmp/mf-mutant"

# (name, property, file, old, new, checks)
M = [
    ("c01-plural-es", "C01/C02/C19", "mappyfile/transformer.py", 'return s + "es"', 'return s + "s"', "C02 C19"),
    ("c01-upper-all-strings", "C01", "mappyfile/pprint.py", "            return self.quoter.add_quotes(value)\n\n        # expressions can be one",
     "            return self.quoter.add_quotes(value.upper() if len(value) == 7 else value)\n\n        # expressions can be one", "C01 C03"),
    ("c02-keyname-no-lower", "C02", "mappyfile/transformer.py", "        return token.value.lower()", "        return token.value", "C02 C05"),
    ("c02-hexcolor-no-lower", "C02", "mappyfile/transformer.py", "t[0].value = self.clean_string(t[0].value).lower()", "t[0].value = self.clean_string(t[0].value)", "C02"),
    ("c02-kv-keep-key-case", "C02", "mappyfile/transformer.py", "k = self.clean_string(t[0].value).lower()", "k = self.clean_string(t[0].value)", "C02"),
    ("c02-leader-plural", "C02/C19", "mappyfile/tokens.py", "    grid\n    leader\n    legend", "    grid\n    legend", "C02 C19"),
    ("c03-quote-enums", "C03", "mappyfile/pprint.py", "                return str(value).upper()  # value is from a set list, no need for quote",
     "                return self.quoter.add_quotes(str(value).upper())", "C03"),
    ("c03-print-comments-key", "C03", "mappyfile/pprint.py", '        if key.startswith("__") and key.endswith("__"):\n            return True',
     '        if key.startswith("__") and key.endswith("__") and key != "__note__":\n            return True', "C03 C07"),
    ("c03-config-no-upper", "C03", "mappyfile/pprint.py", "cfg_val = self.quoter.add_quotes(k.upper())", "cfg_val = k.upper()", "C03 C01"),
    ("c04-escape-requotes", "C04", "mappyfile/quoter.py", 'middle = self.remove_quotes(val).replace("\\\\" + self.quote, self.quote)', "middle = self.remove_quotes(val)", "C04 C01"),
    ("c04-enum-title", "C04/C03", "mappyfile/pprint.py", "                    return self.quoter.add_quotes(value)\n                return value.upper()",
     "                    return self.quoter.add_quotes(value)\n                return value.title()", "C04 C03"),
    ("c05-ws-no-formfeed", "C05", "mappyfile/mapfile.lark", "WS: /[ \\t\\f]+/", "WS: /[ \\t]+/", "C05"),
    ("c05-literal-case", "C05", "mappyfile/mapfile.lark", '!pattern: "PATTERN"i', '!pattern: "PATTERN"', "C05"),
    ("c06-align-fuse", "C06", "mappyfile/pprint.py", "        return int((int(max_key_length / indent) + 1) * indent)", "        return int((int(max_key_length / indent)) * indent)", "C06 C16"),
    ("c06-separate-moves-all", "C06", "mappyfile/pprint.py", "        if key in COMPLEX_TYPES and not isinstance(composite[key], (dict, list)):\n            return False",
     "        if key in COMPLEX_TYPES and not isinstance(composite[key], (dict, list)):\n            return key == \"style\"", "C06"),
    ("c07-lowercase-skips-lists", "C07", "mappyfile/validator.py", "            return [self.convert_lowercase(v) for v in x]", "            return list(x)", "C07"),
    ("c07-swallow-additional", "C07", "mappyfile/validator.py", "        errors = list(validator.iter_errors(jsn))", "        errors = [e for e in validator.iter_errors(jsn) if e.validator != \"additionalProperties\" or not e.absolute_path]", "C07 C08"),
    ("c08-end-column", "C08", "mappyfile/transformer.py", "        line, column = key_token.line, key_token.column", "        line, column = key_token.line, key_token.end_column", "C08"),
    ("c08-repeat-last-pos", "C08", "mappyfile/transformer.py", "                        position_dict[key_name].append(pos)", "                        position_dict[key_name] = [pos]", "C08"),
    ("c09-lt-le", "C09", "mappyfile/validator.py", "            if version < min_version or version > max_version:", "            if version <= min_version or version > max_version:", "C09"),
    ("c09-cache-without-version", "C09", "mappyfile/validator.py", "            cache_schema_name = schema_name + str(version)", "            cache_schema_name = schema_name + str(int(version))", "C09"),
    ("c09-no-list-filter", "C09", "mappyfile/validator.py", "                        if self.is_valid_for_version(props, version) is True:\n                            valid_list.append(props)",
     "                        valid_list.append(props)", "C09"),
    ("c10-and-emits-or", "C10", "mappyfile/transformer.py", 't[0].value = f"( {t[0].value} AND {t[1].value} )"', 't[0].value = f"( {t[0].value} OR {t[1].value} )"', "C10"),
    ("c10-comparison-no-parens", "C10", "mappyfile/transformer.py", '        v = f"( {v} )"\n        t[0].value = v', "        t[0].value = v", "C10"),
    ("c10-grammar-or-and-swap", "C10", "mappyfile/mapfile.lark", '?or_test : (or_test ("OR"i|"||"))? and_test\n?and_test : (and_test ("AND"i|"&&"))? comparison',
     '?or_test : (or_test ("AND"i|"&&"))? and_test\n?and_test : (and_test ("OR"i|"||"))? comparison', "C10"),
    ("c11-quadratic-includes", "C11", "mappyfile/parser.py", '        lines = text.split("\\n")\n        includes = {}',
     '        lines = text.split("\\n")\n        for _i in range(len(lines)):\n            lines = list(lines)\n        includes = {}', "C11"),
    ("c11-assert-to-index", "C11", "mappyfile/transformer.py", "        assert len(t) == 3\n        parts", "        parts", "C11"),
    ("c12-shared-parser", "C12", "mappyfile/utils.py", "    p = Parser(\n        expand_includes=expand_includes, include_comments=include_comments, **kwargs\n    )\n    ast = p.parse(s)",
     "    p = _shared_parser(expand_includes, include_comments, **kwargs)\n    ast = p.parse(s)", "C12"),
    ("c12-pprint-sorts-in-place", "C12", "mappyfile/pprint.py", "        for attr, value in composite.items():\n            if self.__is_metadata(attr):\n                # skip hidden attributes",
     "        if \"name\" in composite and hasattr(composite, \"move_to_end\"):\n            composite.move_to_end(\"name\", last=False)\n        for attr, value in composite.items():\n            if self.__is_metadata(attr):\n                # skip hidden attributes", "C12 C03"),
    ("c12-comments-not-cleared", "C12", "mappyfile/parser.py", "            self._comments[:] = []  # clear any comments from a previous parse", "            pass", "C12 C14"),
    ("c13-position-printed", "C13", "mappyfile/pprint.py", '        if key.startswith("__") and key.endswith("__"):\n            return True',
     '        if key.startswith("__") and key.endswith("__") and key != "__position__":\n            return True', "C13 C03"),
    ("c14-comments-not-popped", "C14", "mappyfile/parser.py", "                        comments.append(self.comments_dict.pop(line_number))", "                        comments.append(self.comments_dict[line_number])", "C14"),
    ("c14-strip-hash", "C14", "mappyfile/parser.py", "                    self.comments_dict[c.line] = c.value.strip()", "                    self.comments_dict[c.line] = c.value.strip().replace(\"#  \", \"# \")", "C14"),
    ("c15-nested-relative-to-including", "C15", "mappyfile/parser.py", "                    include_text, fn=fn, _nested_includes=_nested_includes + 1", "                    include_text, fn=inc_file_path, _nested_includes=_nested_includes + 1", "C15"),
    ("c15-depth-6", "C15", "mappyfile/parser.py", "                if _nested_includes == 5:", "                if _nested_includes == 6:", "C15"),
    ("c15-single-quote-not-stripped", "C15", "mappyfile/parser.py", "        return inc_file_path.strip(\"'\").strip('\"')", "        return inc_file_path.strip('\"')", "C15"),
    ("c16-kv-end-indent", "C16", "mappyfile/pprint.py", "        lines.append(self.add_end_line(level, 1, key))\n\n        return lines\n\n    def process_dict",
     "        lines.append(self.add_end_line(level, 2, key))\n\n        return lines\n\n    def process_dict", "C16"),
    ("c16-pair-newline", "C16", "mappyfile/pprint.py", "                comment = self.newlinechar.join(comment_list)", "                comment = \"\\n\".join(comment_list)", "C16"),
    ("c17-pop-no-fold", "C17", "mappyfile/ordereddict.py", "        return super().pop(self.__class__._k(key), *args, **kwargs)", "        return super().pop(key, *args, **kwargs)", "C17"),
    ("c17-copy-drops-factory", "C17", "mappyfile/ordereddict.py", "        return type(self)(self.default_factory, self)", "        return type(self)(None, self)", "C17"),
    ("c17-deepcopy-shallow", "C17", "mappyfile/ordereddict.py", "        return type(self)(self.default_factory, copy.deepcopy(list(self.items())))", "        return type(self)(self.default_factory, list(self.items()))", "C17"),
    ("c18-zip-not-longest", "C18", "mappyfile/dictutils.py", "            pairs = list(zip_longest(orig_list, v, fillvalue=None))", "            pairs = list(zip(orig_list, v))", "C18"),
    ("c18-findunique-unsorted", "C18", "mappyfile/dictutils.py", "    return sorted(\n        set((item.get(key.lower(), None) for item in lst))", "    return list(\n        set((item.get(key.lower(), None) for item in lst))", "C18"),
    ("c19-schema-keyword-removed", "C19", "mappyfile/schemas/scalebar.json", '"intervals"', '"intervalz"', "C19"),
    ("c19-default-out-of-range", "C19", "mappyfile/schemas/map.json", '"default": 72,', '"default": 7,', "C19"),
    ("c20-save-latin1", "C20", "mappyfile/utils.py", '    with codecs.open(output_file, "w", encoding="utf-8") as f:', '    with codecs.open(output_file, "w", encoding="utf-8" if string.isascii() else "utf-16") as f:', "C20"),
    ("c20-cli-ignores-quote", "C20", "mappyfile/cli.py", "        quote=quote,\n        newlinechar=newlinechar,", "        newlinechar=newlinechar,", "C20"),
    ("c20-schema-ignores-version", "C20", "mappyfile/cli.py", "    jsn = validator.get_versioned_schema(version)", "    jsn = validator.get_versioned_schema(None)", "C20"),
]

EXTRA = {
    "c12-shared-parser": ("mappyfile/utils.py", "\n\ndef _save(", "\n\n_PARSERS = {}\n\n\ndef _shared_parser(expand_includes, include_comments, **kwargs):\n    k = (expand_includes, include_comments)\n    if k not in _PARSERS:\n        _PARSERS[k] = Parser(expand_includes=expand_includes, include_comments=include_comments, **kwargs)\n    return _PARSERS[k]\n\n\ndef _save("),
}


def sh(cmd, **kw):
    return subprocess.run(cmd, shell=True, capture_output=True, text=True, **kw)


def main():
    want = sys.argv[1:]
    sh(f"git -C /repo worktree remove --force {WT}")
    sh(f"git -C /repo worktree add -q {WT} HEAD")
    out_path = "/verif/seeded/design-mutants.json"
    results = json.load(open(out_path)) if os.path.exists(out_path) else {}
    for name, prop, file, old, new, checks in M:
        if want and not any(w in name for w in want):
            continue
        sh(f"git -C {WT} checkout -- .")
        p = os.path.join(WT, file)
        s = open(p).read()
        if old not in s:
            print(name, "PATTERN NOT FOUND")
            results[name] = {"property": prop, "error": "pattern not found"}
            continue
        s = s.replace(old, new, 1)
        if name in EXTRA:
            f2, o2, n2 = EXTRA[name]
            if f2 == file:
                s = s.replace(o2, n2, 1)
        open(p, "w").write(s)
        t = sh(f"cd {WT} && PYTHONPATH={WT} /venv/bin/python -m pytest -q -p no:cacheprovider -n 8 -x --deselect tests/test_map_collection.py::test_maps 2>&1 | tail -1")
        tests = t.stdout.strip()
        caught = {}
        for c in checks.split():
            r = sh(f"cd /verif && MF_REPO={WT} ./check {c} --tier quick --no-evidence")
            lines = [l for l in r.stdout.split("\n") if l.startswith(("VIOLATION", c + " quick", "INCONCLUSIVE"))]
            kinds = sorted({re.search(r"kind=(\S+)", l).group(1) for l in lines if "kind=" in l})
            caught[c] = {"exit": r.returncode, "kinds": kinds[:6], "summary": (lines[-1] if lines else "")[:160]}
        results[name] = {"property": prop, "file": file, "change": f"{old[:70]!r} -> {new[:70]!r}", "repo_tests": tests, "checks": caught}
        print(name, "| tests:", tests, "|", {c: v["exit"] for c, v in caught.items()}, flush=True)
        json.dump(results, open(out_path, "w"), indent=1)
    sh(f"git -C /repo worktree remove --force {WT}")


if __name__ == "__main__":
    main()
