#!/bin/sh
# tools/verify_seed.sh <ID> <seed-dir> "<checks>"   - confirm a seeded change in a fresh scratch worktree and run checks against it
#   <seed-dir> holds patch.diff and demo.py.  Nothing is applied to /repo.
set -u
id=$1; sd=$2; checks=$3
vt=/tmp/vt-$id
git -C /repo worktree remove --force $vt >/dev/null 2>&1
git -C /repo worktree add -q $vt HEAD || exit 3
cd $vt
echo "--- demo on the untouched tree (expect 0)"; PYTHONPATH=$vt timeout 600 /venv/bin/python $sd/demo.py >/tmp/vt-$id.demo0 2>&1; echo "rc=$?"
git apply $sd/patch.diff || { echo "PATCH DOES NOT APPLY"; exit 3; }
echo "--- demo with the change (expect 1)"; PYTHONPATH=$vt timeout 600 /venv/bin/python $sd/demo.py >/tmp/vt-$id.demo1 2>&1; echo "rc=$?"; tail -3 /tmp/vt-$id.demo1
echo "--- repository test-suite with the change"
PYTHONPATH=$vt /venv/bin/python -m pytest -q -p no:cacheprovider -n 6 --deselect tests/test_map_collection.py::test_maps 2>&1 | tail -1
echo "--- checks against the changed tree"
/verif/tools/seedtest.sh $vt "$checks"
