#!/bin/sh
# Offline setup: install icontract beside the repository's interpreter (into /verif/.deps).
set -e
cd "$(dirname "$0")"
if [ ! -d .deps/icontract ]; then
  PIP_NO_INDEX=1 /venv/bin/pip install --quiet --no-index --find-links /opt/veriftools/wheels \
      --target .deps icontract >/dev/null 2>&1 || \
  PIP_NO_INDEX=1 /venv/bin/python -m pip install --quiet --no-index --find-links /opt/veriftools/wheels \
      --target .deps icontract
fi
/venv/bin/python -c "import sys; sys.path.insert(0,'.deps'); import icontract; print('icontract', icontract.__version__)"
