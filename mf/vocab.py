"""Independent reader of mappyfile's JSON schema files and of the block-type list in mapfile.lark.

Only the *files* are shared with mappyfile: loading, $ref inlining, flattening of oneOf/anyOf/allOf and the
classification of value alternatives ("shapes") are done here, from the raw JSON, at run time.
Nothing is taken from mappyfile/tokens.py.
"""
from __future__ import annotations

import copy
import functools
import glob
import json
import os
import re

from . import core

SCHEMA_DIR = os.path.join(core.REPO, "mappyfile", "schemas")
GRAMMAR = os.path.join(core.REPO, "mappyfile", "mapfile.lark")


@functools.lru_cache(None)
def raw():
    out = {}
    for f in sorted(glob.glob(os.path.join(SCHEMA_DIR, "*.json"))):
        with open(f, encoding="utf-8") as fh:
            out[os.path.basename(f)[:-5]] = json.load(fh)
    return out


def inline(node, stack=()):
    """Deep copy with every {"$ref": "x.json"} object replaced wholesale by the inlined content of x.json."""
    if isinstance(node, dict):
        if "$ref" in node:
            name = node["$ref"].split("#")[0]
            name = name[:-5] if name.endswith(".json") else name
            if name in stack:
                raise ValueError("cyclic $ref " + "->".join(stack + (name,)))
            return inline(raw()[name], stack + (name,))
        return {k: inline(v, stack) for k, v in node.items()}
    if isinstance(node, list):
        return [inline(v, stack) for v in node]
    return copy.copy(node)


@functools.lru_cache(None)
def _inlined(name):
    return inline(raw()[name], (name,))


def inlined(name):
    """A fresh deep copy of the fully inlined schema file `name`."""
    return copy.deepcopy(_inlined(name))


@functools.lru_cache(None)
def object_types():
    """Schema files that describe a Mapfile block (have properties.__type__), e.g. 'map', 'layer', ..."""
    out = []
    for name, s in raw().items():
        if s.get("type") == "object" and "__type__" in s.get("properties", {}):
            out.append(name)
    return tuple(sorted(out))


@functools.lru_cache(None)
def grammar_block_types():
    """Block types the grammar can open: literals of the composite_type rule + the key-value blocks + symbolset."""
    text = open(GRAMMAR, encoding="utf-8").read()
    m = re.search(r"!composite_type:(.*?)\n\s*\n", text, re.S)
    types = re.findall(r'"([A-Z]+)"i', m.group(1))
    return tuple(t.lower() for t in types)


# ----------------------------------------------------------------------------------------------
# alternatives


class Alt:
    __slots__ = ("kind", "node", "lo", "hi", "info")

    def __init__(self, kind, node, lo, hi, **info):
        self.kind = kind
        self.node = node
        self.lo = lo
        self.hi = hi
        self.info = info

    def __repr__(self):
        return f"Alt({self.kind},{self.info})"


def _meta(node):
    md = node.get("metadata") or {}
    return md.get("minVersion"), md.get("maxVersion")


def _leaves(node, lo=None, hi=None):
    """Flatten oneOf/anyOf/allOf into leaf alternatives, carrying version bounds down."""
    l2, h2 = _meta(node)
    lo = l2 if l2 is not None else lo
    hi = h2 if h2 is not None else hi
    for comb in ("oneOf", "anyOf", "allOf"):
        if comb in node:
            out = []
            # constraints written beside the combinator (e.g. label.priority: minimum/maximum next to anyOf) apply to every leaf
            inherited = {k: node[k] for k in ("minimum", "maximum", "exclusiveMinimum", "exclusiveMaximum") if k in node}
            for a in node[comb]:
                for leaf, l3, h3 in _leaves(a, lo, hi):
                    if inherited and leaf.get("type") in ("number", "integer"):
                        leaf = dict(inherited, **leaf)
                    out.append((leaf, l3, h3))
            return out
    return [(node, lo, hi)]


def classify(key, leaf, lo=None, hi=None):
    t = leaf.get("type")
    if "enum" in leaf:
        return Alt("enum", leaf, lo, hi, members=list(leaf["enum"]))
    if t == "object":
        props = leaf.get("properties", {})
        if "__type__" in props:
            return Alt("block", leaf, lo, hi, child=props["__type__"]["enum"][0])
        if key == "config":
            return Alt("config", leaf, lo, hi)
        if key.startswith("__"):
            return Alt("hidden", leaf, lo, hi)
        return Alt("kv", leaf, lo, hi)
    if t == "array":
        items = leaf.get("items", {})
        n = (leaf.get("minItems"), leaf.get("maxItems"))
        if isinstance(items, list):
            return Alt("tuple", leaf, lo, hi, parts=[classify(key, i) for i in items], n=n)
        it = items.get("type")
        if it == "object" and "__type__" in items.get("properties", {}):
            return Alt("blocklist", leaf, lo, hi, child=items["properties"]["__type__"]["enum"][0], n=n)
        if it == "array":
            inner = items.get("items", {})
            if inner.get("type") == "array":
                return Alt("multipairs", leaf, lo, hi)
            return Alt("pairs", leaf, lo, hi)
        if it in ("number", "integer"):
            return Alt("numlist", leaf, lo, hi, n=n, item=items, integer=(it == "integer"))
        if it == "string":
            if items.get("description") == "attribute":
                return Alt("bindlist", leaf, lo, hi, n=n)
            if key == "projection":
                return Alt("projection", leaf, lo, hi)
            if n == (None, None):
                return Alt("repeat", leaf, lo, hi)
            return Alt("strlist", leaf, lo, hi, n=n)
        if "oneOf" in items or "anyOf" in items:
            parts = [classify(key, l, a, b) for l, a, b in _leaves(items)]
            return Alt("mixedlist", leaf, lo, hi, parts=parts, n=(items.get("minItems"), items.get("maxItems")))
        return Alt("array", leaf, lo, hi)
    if t == "string":
        d = leaf.get("description")
        pat = leaf.get("pattern", "")
        if d is None and pat:
            # alternatives without a description are recognised by their pattern
            if pat.startswith("^\\["):
                d = "attribute"
            elif pat.startswith("^\\("):
                d = "expression"
            elif pat.startswith("^/"):
                d = "regex"
        if d == "attribute":
            return Alt("attribute", leaf, lo, hi)
        if d == "expression":
            return Alt("expression", leaf, lo, hi)
        if d == "regex":
            return Alt("regex", leaf, lo, hi)
        if "pattern" in leaf and "#" in leaf["pattern"] and "a-f" in leaf["pattern"]:
            return Alt("hexcolor", leaf, lo, hi)
        m = re.fullmatch(r"\^([A-Za-z0-9_ -]+)\$", pat or "")
        return Alt("string", leaf, lo, hi, minlen=leaf.get("minLength"), maxlen=leaf.get("maxLength"),
                   literal=m.group(1) if m else None, pattern=pat or None)
    if t in ("number", "integer"):
        return Alt(t, leaf, lo, hi)
    if t == "boolean":
        return Alt("boolean", leaf, lo, hi)
    return Alt("any", leaf, lo, hi)


class Prop:
    __slots__ = ("obj", "key", "node", "alts", "lo", "hi", "default", "has_default")

    def __init__(self, obj, key, node):
        self.obj = obj
        self.key = key
        self.node = node
        self.lo, self.hi = _meta(node)
        self.alts = [classify(key, l, a, b) for l, a, b in _leaves(node)]
        self.has_default = "default" in node
        self.default = node.get("default")

    def kinds(self):
        return {a.kind for a in self.alts}

    def enum_members_lower(self):
        out = set()
        for a in self.alts:
            if a.kind == "enum":
                out.update(m.lower() for m in a.info["members"] if isinstance(m, str))
        return out

    def __repr__(self):
        return f"Prop({self.obj}.{self.key}:{[a.kind for a in self.alts]})"


@functools.lru_cache(None)
def props(obj):
    """Ordered mapping keyword -> Prop for a block type (or 'symbolset')."""
    s = _inlined(obj)
    out = {}
    for k, v in s.get("properties", {}).items():
        out[k] = Prop(obj, k, v)
    return out


@functools.lru_cache(None)
def required(obj):
    return tuple(_inlined(obj).get("required", ()))


def prop(obj, key):
    return props(obj).get(key)


@functools.lru_cache(None)
def child_slots(obj):
    """keyword -> (child type, 'single'|'list') for block-valued properties of obj."""
    out = {}
    for k, p in props(obj).items():
        for a in p.alts:
            if a.kind == "block":
                out.setdefault(k, (a.info["child"], "single"))
            elif a.kind == "blocklist":
                out[k] = (a.info["child"], "list")
    return out


@functools.lru_cache(None)
def object_list_keys():
    """Plural keys under which parents store lists of blocks, e.g. layers, classes, ..."""
    out = set()
    for o in object_types() + ("symbolset",):
        for k, (_, mode) in child_slots(o).items():
            if mode == "list":
                out.add(k)
    return frozenset(out)


@functools.lru_cache(None)
def storage_of_child(parent, child):
    """Under which key, and how, a `child` block is stored in `parent` according to parent's schema."""
    for k, (c, mode) in child_slots(parent).items():
        if c == child:
            if mode == "list" or k != child:
                if mode == "list":
                    return k, "list"
            else:
                return k, "single"
    for k, (c, mode) in child_slots(parent).items():
        if c == child and mode == "single" and k == child:
            return k, "single"
    return None


@functools.lru_cache(None)
def parents_of(child):
    out = []
    for o in object_types() + ("symbolset",):
        for k, (c, mode) in child_slots(o).items():
            if c == child and (mode == "list" or k == child):
                out.append((o, k, mode))
    return tuple(out)


@functools.lru_cache(None)
def kv_keys():
    """Keywords holding key-value blocks (METADATA, VALIDATION, VALUES, CONNECTIONOPTIONS)."""
    out = set()
    for o in object_types():
        for k, p in props(o).items():
            if any(a.kind == "kv" for a in p.alts):
                out.add(k)
    return frozenset(out)


@functools.lru_cache(None)
def all_keywords():
    out = set()
    for o in object_types() + ("symbolset",):
        out.update(k for k in props(o) if not k.startswith("__"))
        out.add(o)
    return frozenset(out)


@functools.lru_cache(None)
def grammar_literals():
    """Every quoted literal of the grammar file (upper-cased): bare words must avoid them."""
    text = open(GRAMMAR, encoding="utf-8").read()
    text = re.sub(r"//[^\n]*", "", text)
    return frozenset(m.upper() for m in re.findall(r'"([A-Za-z]+)"i', text))


def version_bounds():
    """All distinct minVersion / maxVersion values found anywhere in the schema files."""
    out = set()

    def walk(n):
        if isinstance(n, dict):
            md = n.get("metadata")
            if isinstance(md, dict):
                for k in ("minVersion", "maxVersion"):
                    if k in md:
                        out.add(float(md[k]))
            for v in n.values():
                walk(v)
        elif isinstance(n, list):
            for v in n:
                walk(v)

    for s in raw().values():
        walk(s)
    return sorted(out)
