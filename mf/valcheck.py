"""Shared pipeline for C07 / C08: schema-valid IR -> (optional) fault injection -> rendering with token positions ->
loads(include_position=True) -> validate.  Each check judges its own clause on the result."""
from __future__ import annotations

from . import faults as F
from . import gen, render, vocab


class Run:
    pass


def make(r, eng, gated, nfaults=0, want_kind=None, surface=None, root=None, symbol_files=True):
    """Returns a Run with .nodes .text .rendered .d .root .messages .faults, or None when the base document is unusable."""
    run = Run()
    run.error = None
    run.nodes = gen.gen_document(r, gen.GenOpts(gated=set(gated), p_key=r.choice([0.2, 0.35]), valid=True, dup=0.0,
                                                    symbol_files=symbol_files), root=root)[:1]
    run.faults = F.inject(r, run.nodes, nfaults, want_kind) if nfaults else []
    gen.apply_gates(run.nodes[0], gated)
    run.surface = surface or render.CANONICAL
    run.rendered = render.render(run.nodes, run.surface, r)
    run.text = run.rendered.text
    try:
        run.d = eng.loads(run.text, include_position=True)
    except Exception as ex:
        run.error = ex
        return run
    run.root = run.d[0] if isinstance(run.d, list) else run.d
    return run


def validate(eng, run, version=None, public=False):
    t = run.root["__type__"]
    if public and t == "map":
        import mappyfile

        return mappyfile.validate(run.root, version=version)
    return eng.validator.validate(run.root, schema_name=t, version=version)


def fault_features(run):
    """depth / inside-list flag of each fault's object (for the evidence)."""
    out = []
    for f in run.faults:
        n = f["object"]
        depth = 0
        inlist = False
        cur = n
        while cur.parent is not None:
            depth += 1
            for it in cur.parent.items:
                if it.kind == "block" and it.node is cur:
                    inlist = inlist or vocab.child_slots(cur.parent.type)[it.key][1] == "list"
            cur = cur.parent
        out.append((f["kind"], depth, inlist))
    return out
