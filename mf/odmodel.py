"""Reference model of the case-insensitive, insertion-ordered Mapfile dict (property C17).

A plain OrderedDict keyed by lower-cased keys plus an optional default factory.  Written from the property
statement, not from mappyfile/ordereddict.py.
"""
from __future__ import annotations

from collections import OrderedDict

_MISSING = object()


def fold(k):
    return k.lower() if isinstance(k, str) else k


class ODModel:
    def __init__(self, factory=None, list_keys=frozenset(), init=None, kw=None):
        self.d = OrderedDict()
        self.factory = factory
        self.list_keys = list_keys
        if init is not None or kw:
            self.update(init, **(kw or {}))

    # --- item access
    def getitem(self, k):
        lk = fold(k)
        if lk in self.d:
            return self.d[lk]
        if self.factory is None:
            raise KeyError(lk)
        v = [] if lk in self.list_keys else self.factory()
        self.d[lk] = v
        return v

    def setitem(self, k, v):
        self.d[fold(k)] = v

    def delitem(self, k):
        del self.d[fold(k)]

    def contains(self, k):
        return fold(k) in self.d

    def get(self, k, default=None):
        return self.d.get(fold(k), default)

    def pop(self, k, default=_MISSING):
        lk = fold(k)
        if default is _MISSING:
            return self.d.pop(lk)
        return self.d.pop(lk, default)

    def setdefault(self, k, default=None):
        return self.d.setdefault(fold(k), default)

    def update(self, e=None, **kw):
        if e is not None:
            pairs = e.items() if hasattr(e, "items") else e
            for k, v in pairs:
                self.d[fold(k)] = v
        for k, v in kw.items():
            self.d[fold(k)] = v

    def items(self):
        return list(self.d.items())

    def keys(self):
        return list(self.d.keys())

    def __len__(self):
        return len(self.d)
