"""pytest plugin: run the repository's own test-suite with the contracts attached (thorough tier of C03 / C12 / C16 / C17).

  PYTHONPATH=/verif:/verif/.deps MF_PLUGIN_OUT=<file> pytest -p mf.pytest_plugin ...

Every contract records and returns True, so the tests behave as usual; what the contracts observed per test is written
to MF_PLUGIN_OUT at session end.  A contract that fires here is triaged like any other alarm.
"""
from __future__ import annotations

import json
import os

RESULTS = {"tests": 0, "pprint_evals": 0, "pprint_judged": 0, "content": [], "layout": [], "purity": [], "dict_invariant": [],
           "invariant_evals": 0, "purity_evals": 0}


def pytest_configure(config):
    from mf import core

    core.setup_env()
    from mf.mon import pprint_contract as PC
    from mf.workloads import C12, C17

    PC.attach()
    C17.attach_invariant()
    C12.attach()


def pytest_runtest_teardown(item, nextitem):
    from mf.mon import contracts, pprint_contract as PC
    from mf.workloads import C12, C17

    RESULTS["tests"] += 1
    for rep, result, opts in PC.take():
        RESULTS["pprint_evals"] += 1
        if rep.skipped:
            continue
        RESULTS["pprint_judged"] += 1
        for kind, detail in rep.content:
            RESULTS["content"].append({"test": item.nodeid, "kind": kind, "detail": detail, "text": result[:1500]})
        for kind, detail in rep.layout:
            RESULTS["layout"].append({"test": item.nodeid, "kind": kind, "detail": detail, "text": result[:1500],
                                      "options": {k: v for k, v in opts.items() if k != "spacer"}})
    for kind, case in C12.VIOL:
        RESULTS["purity"].append({"test": item.nodeid, "kind": kind, "case": str(case)[:1500]})
    C12.VIOL.clear()
    if C17.INV_STATE["bad"]:
        RESULTS["dict_invariant"].append({"test": item.nodeid, "keys": C17.INV_STATE["bad"][:3]})
        C17.INV_STATE["bad"].clear()
    RESULTS["invariant_evals"] = C17.INV_STATE["evals"]
    RESULTS["purity_evals"] = sum(v for k, v in contracts.EVALS.items() if k.startswith("purity:"))


def pytest_sessionfinish(session, exitstatus):
    out = os.environ.get("MF_PLUGIN_OUT")
    if out:
        with open(out, "w") as f:
            json.dump(RESULTS, f, indent=1, default=str)
