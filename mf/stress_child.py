"""Child process for C11's pathological short inputs: runs each input through the real parser under an RLIMIT_CPU set by the
parent (CPU time, not wall clock).  Prints 'START i' before and 'DONE i <cpu_ns> <outcome>' after every input, so the parent
knows which input was running if the CPU limit kills the process."""
from __future__ import annotations

import json
import sys
import time


def main():
    from mf import core

    core.setup_env()
    from mappyfile.parser import Parser
    from mappyfile.transformer import MapfileToDict

    inputs = json.load(open(sys.argv[1]))
    start = int(sys.argv[2])
    p = Parser(expand_includes=False)
    m = MapfileToDict()
    for i in range(start, len(inputs)):
        print(f"START {i}", flush=True)
        t0 = time.process_time_ns()
        try:
            m.transform(p.parse(inputs[i]))
            out = "ok"
        except BaseException as ex:  # noqa
            out = type(ex).__name__
        print(f"DONE {i} {time.process_time_ns() - t0} {out}", flush=True)


if __name__ == "__main__":
    main()
