"""Run the repository's test-suite under the contracts (mf/pytest_plugin.py) and return what they observed."""
from __future__ import annotations

import json
import os
import subprocess
import tempfile

from . import core


def run_suite(timeout=1500):
    fd, out = tempfile.mkstemp(prefix="mf-suite-", suffix=".json")
    os.close(fd)
    env = dict(os.environ)
    env["PYTHONPATH"] = os.pathsep.join([core.VERIF, core.DEPS, core.REPO])
    env["MF_PLUGIN_OUT"] = out
    env["MF_REPO"] = core.REPO
    scratch = tempfile.mkdtemp(prefix="mf-suite-tmp-")
    env["TMPDIR"] = scratch  # the tests leave temporary files behind: they go where they can be removed
    cmd = [core.PY, "-m", "pytest", "-q", "-p", "no:cacheprovider", "-p", "mf.pytest_plugin", "--deselect",
           "tests/test_map_collection.py::test_maps", "-x", "--timeout=900", "tests", "docs/examples"]
    try:
        p = subprocess.run(cmd, cwd=core.REPO, env=env, capture_output=True, text=True, timeout=timeout)
        tail = (p.stdout or "")[-600:]
        data = json.load(open(out)) if os.path.getsize(out) else None
    except subprocess.TimeoutExpired:
        return None, "timeout"
    finally:
        try:
            os.remove(out)
        except OSError:
            pass
        import shutil
        shutil.rmtree(scratch, ignore_errors=True)
    return data, tail
