"""Independent conformance verdict for Mapfile dictionaries (C07, C09, C19).

Shared with mappyfile: the schema *files* and the jsonschema library's Draft-4 evaluator.  Not shared: schema loading,
$ref handling (own wholesale inlining, mf/vocab.py), caching, lower-casing / JSON normalisation, version pruning and the
mapping from errors to messages.
"""
from __future__ import annotations

import copy
import functools

import jsonschema

from . import vocab


def lower_json(x):
    """Lower-cased JSON form: keys and string values lower-cased, tuples -> lists, any mapping -> plain dict."""
    if isinstance(x, dict):
        return {(k.lower() if isinstance(k, str) else k): lower_json(v) for k, v in x.items()}
    if isinstance(x, (list, tuple)):
        return [lower_json(v) for v in x]
    if isinstance(x, str):
        return x.lower()
    return x


def in_range(node, version):
    md = node.get("metadata") if isinstance(node, dict) else None
    if not isinstance(md, dict) or version is None:
        return True
    lo = md.get("minVersion")
    hi = md.get("maxVersion")
    if lo is not None and version < lo:
        return False
    if hi is not None and version > hi:
        return False
    return True


def prune(node, version):
    """Own recursive pruning: drop every schema node (dict member of a dict or of a list, at every depth) whose metadata
    excludes `version`."""
    if isinstance(node, dict):
        out = {}
        for k, v in node.items():
            if isinstance(v, dict):
                if k != "metadata" and not in_range(v, version):
                    continue
                out[k] = prune(v, version)
            elif isinstance(v, list):
                out[k] = [prune(i, version) for i in v if not (isinstance(i, dict) and not in_range(i, version))]
            else:
                out[k] = v
        return out
    if isinstance(node, list):
        return [prune(i, version) for i in node if not (isinstance(i, dict) and not in_range(i, version))]
    return node


@functools.lru_cache(maxsize=256)
def _validator(schema_name, version):
    schema = vocab.inlined(schema_name)
    if version is not None:
        schema = prune(schema, version)
    return jsonschema.Draft4Validator(schema)


def errors(d, schema_name=None, version=None):
    """jsonschema errors of the lower-cased JSON form of d against the (pruned) schema of its root type."""
    name = schema_name or d.get("__type__", "map")
    return list(_validator(name, version).iter_errors(lower_json(d)))


def conforms(d, schema_name=None, version=None):
    return not errors(d, schema_name, version)


def error_targets(d, errs):
    """For each error: ('keyword', KEY, path to the owning object) or ('object', TYPE, path to the object)."""
    out = []
    for e in errs:
        path = list(e.absolute_path)
        # strip list indexes that point into a scalar list value (SIZE 10.5 20 -> path ['size', 0])
        cur = d
        node_path = []
        obj_path = []
        last_key = None
        ok = True
        for p in path:
            try:
                cur = cur[p]
            except Exception:
                ok = False
                break
            node_path.append(p)
        target = cur if ok else None
        if isinstance(target, dict) and "__type__" in lower_json(target):
            out.append(("object", str(lower_json(target)["__type__"]).upper(), tuple(path)))
        else:
            pp = list(path)
            while pp and isinstance(pp[-1], int):
                pp.pop()
            if not pp:
                out.append(("object", str(lower_json(d).get("__type__")).upper(), ()))
            else:
                out.append(("keyword", str(pp[-1]).upper(), tuple(pp[:-1])))
    return out
