"""Reference implementations of mappyfile.update / find / findall / findunique / findkey (property C18).

Written from the property statement.  The model works on deep copies and uses the target's own dict
operations (so plain dicts and Mapfile dicts are both handled; the dict semantics themselves are C17's job).
"""
from __future__ import annotations

import copy

DELETE = "__delete__"


def is_objlist(v):
    return isinstance(v, (list, tuple)) and all(li is None or isinstance(li, dict) for li in v)


def wants_delete(v):
    return isinstance(v, dict) and bool(v.get(DELETE, False))


def update_domain(d1, d2):
    """None when (d1, d2) is inside the documented usage, otherwise the reason it is not (observed, not judged)."""
    if not isinstance(d1, dict) or not isinstance(d2, dict):
        return "non-dict argument"
    if DELETE in d2:
        return None if d2[DELETE] else "falsy __delete__ marker"  # (any truthy flag deletes: True, 1, "yes")
    for k, v in d2.items():
        if isinstance(v, dict):
            if DELETE in v:
                if not v[DELETE]:
                    return "falsy __delete__ marker"
                if k not in d1:
                    return "delete of an absent key"
                continue
            if k in d1:
                if not isinstance(d1[k], dict):
                    return "dict patch over a non-dict value"
                r = update_domain(d1[k], v)
            else:
                r = update_domain({}, v)
            if r:
                return r
        elif is_objlist(v):
            if len(v) == 0:
                return "empty list in the patch (object list or scalar list is ambiguous)"
            orig = d1.get(k, []) if k in d1 else []
            if not isinstance(orig, (list, tuple)) or not all(isinstance(o, dict) for o in orig):
                return "object-list patch over a value that is not a list of dicts"
            for i, item in enumerate(v):
                if i >= len(orig) and (item is None or wants_delete(item)):
                    return "None / delete placeholder beyond the end of the original list"
                if item is not None and DELETE in item and not item[DELETE]:
                    return "falsy __delete__ marker"
                if item is not None and not wants_delete(item):
                    r = update_domain(orig[i] if i < len(orig) else {}, item)
                    if r:
                        return r
        else:
            if v == DELETE and k not in d1:
                return "delete of an absent key"
    return None


def update(d1, d2, overwrite=True):
    """Model: mutates and returns d1 (callers pass a deep copy).  Root-level delete returns a new empty dict."""
    if wants_delete(d2):
        return {}
    for k, v in d2.items():
        if isinstance(v, dict):
            if wants_delete(v):
                del d1[k]
            elif k in d1:
                d1[k] = update(d1[k], v, overwrite)
            else:
                d1[k] = update({}, v, overwrite)
        elif is_objlist(v):
            orig = list(d1[k]) if k in d1 else []
            new = []
            for i in range(max(len(orig), len(v))):
                o = orig[i] if i < len(orig) else None
                p = v[i] if i < len(v) else None
                if p is None:
                    new.append(o)  # index skipped (i < len(orig) inside the domain)
                elif wants_delete(p):
                    continue
                else:
                    new.append(update(o if o is not None else {}, p, overwrite))
            d1[k] = new
        elif isinstance(v, str) and v == DELETE:
            del d1[k]
        else:
            if overwrite or k not in d1:
                d1[k] = v
    return d1


def _has(item, key):
    return isinstance(item, dict) and key in item


def find(lst, key, value):
    key = key.lower()
    for item in lst:
        if _has(item, key) and item.get(key) == value:
            return item
    return None


def findall(lst, key, value):
    key = key.lower()
    values = list(value) if isinstance(value, (list, tuple, set, frozenset)) else [value]
    out = []
    for item in lst:
        if _has(item, key):
            v = item.get(key)
            if any(v == w for w in values):
                out.append(item)
    return out


def findunique(lst, key):
    key = key.lower()
    vals = []
    for item in lst:
        if _has(item, key):
            v = item.get(key)
            if v is not None and v not in vals:
                vals.append(v)
    return sorted(vals)


def findkey(d, *keys):
    """Element at an existing key / index path (callers pass a deep copy: a Mapfile dict may auto-create)."""
    cur = d
    for k in keys:
        cur = cur[k]
    return cur
