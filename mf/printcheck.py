"""Independent reading of pretty-printer output, walked in lock-step with the dictionary that was printed.

check(composites, text, options) -> Report with
   .content  : violations of C03 (text does not say exactly what the dictionary says / wrong lexical class /
               hidden key printed / unrepresentable value written)
   .layout   : violations of C16 (line breaks, indentation, END placement, END comments, value alignment)
   .skipped  : reason when the precondition (every object typed, every keyword known to its schema, no string
               containing the output quote or a backslash) does not hold
   .stats    : what was actually compared
Only mf/reader.py (scanner) and mf/vocab.py (own schema reader) are used.
"""
from __future__ import annotations

import collections
import re

from . import gen, reader, relations, vocab

HEX = re.compile(r"^#(?:[0-9a-fA-F]{3}){1,2}([0-9a-fA-F]{2})?$")


class Report:
    def __init__(self):
        self.content = []
        self.layout = []
        self.skipped = None
        self.stats = collections.Counter()
        self.classes = set()
        self.linekinds = set()

    def c(self, kind, detail):
        if len(self.content) < 8:
            self.content.append((kind, detail))

    def l(self, kind, detail):
        if len(self.layout) < 8:
            self.layout.append((kind, detail))


def is_hidden(k):
    return isinstance(k, str) and k.startswith("__") and k.endswith("__")


def _container_key(typ, k):
    """Keys whose value is a collection written item by item (repeatable keywords, POINTS/PATTERN/PROJECTION)."""
    p = vocab.prop(typ, k) if typ in vocab.object_types() else None
    return k in ("include", "points", "pattern", "projection") or (p is not None and p.kinds() & {"repeat", "pairs", "multipairs", "projection"})


def any_typeless(d):
    """True when some dict value below d (outside key-value blocks / CONFIG) has no __type__ - refusing to print such a
    dictionary is always acceptable."""
    if isinstance(d, list):
        return any(any_typeless(x) for x in d)
    if not isinstance(d, dict):
        return False
    if "__type__" not in d:
        return True
    if d["__type__"] in vocab.kv_keys():
        return False
    for k, v in d.items():
        if is_hidden(k) or k == "config" or (k in vocab.kv_keys() and isinstance(v, dict) and "__type__" in v):
            continue
        if isinstance(v, dict) and k in vocab.kv_keys():
            continue
        if isinstance(v, (dict, list)) and any_typeless(v):
            return True
    return False


def unrepresentable(d, path="$"):
    """Dict values that have no Mapfile representation: a dict without __type__ anywhere but under a key-value keyword / CONFIG."""
    out = []
    if isinstance(d, list):
        for i, x in enumerate(d):
            out += unrepresentable(x, f"{path}[{i}]")
        return out
    if not isinstance(d, dict):
        return out
    for k, v in d.items():
        if is_hidden(k):
            continue
        if isinstance(v, dict) and (k in vocab.kv_keys() or k == "config") and ("__type__" not in v or v["__type__"] in vocab.kv_keys()):
            # a key-value block: every value in it has to be a scalar (a dict there - e.g. auto-created by reading a missing key of
            # the block - or a list has no Mapfile representation)
            for kk, vv in v.items():
                if not is_hidden(kk) and isinstance(vv, (dict, list)):
                    out.append(f"{path}.{k}.{kk}")
        elif isinstance(v, dict):
            if "__type__" not in v and k not in vocab.kv_keys() and k != "config":
                if not v and _container_key(d.get("__type__"), k):
                    continue  # an empty container: nothing (or an empty block) is written, no bogus text
                out.append(f"{path}.{k}")
            elif "__type__" in v and v["__type__"] not in vocab.kv_keys():
                out += unrepresentable(v, f"{path}.{k}")
        elif isinstance(v, list):
            for i, x in enumerate(v):
                if isinstance(x, dict):
                    if "__type__" not in x:
                        out.append(f"{path}.{k}[{i}]")
                    else:
                        out += unrepresentable(x, f"{path}.{k}[{i}]")
    return out


def has_comments(d):
    if isinstance(d, dict):
        if d.get("__comments__"):
            return True
        return any(has_comments(v) for k, v in d.items() if k != "__comments__")
    if isinstance(d, list):
        return any(has_comments(v) for v in d)
    return False


def precondition(composites, quote, newlinechar="\n", end_comment=False):
    roots = composites if isinstance(composites, list) else [composites]
    for d in roots:
        if not isinstance(d, dict) or "__type__" not in d:
            return "root without __type__"
    if "\n" not in newlinechar and (end_comment or has_comments(roots)):
        return "newlinechar without a line break while comments are emitted"
    unk = relations.unknown_keywords(roots)
    if unk:
        return "keyword unknown to the schema of its object: " + unk[0]
    for t, k, s in relations.string_leaves(roots):
        if relations.unescaped(s, quote):
            return "string contains the output quote character"
        if s.endswith("\\"):
            return "string contains a backslash"
        if "\r" in s:
            return "string contains CR"
    return None


def required_class(t, key, s):
    """Lexical class MapServer requires for string value s of keyword key in object t (two-sided only where unambiguous)."""
    p = vocab.prop(t, key) if t in vocab.object_types() else None
    if p is None:
        return "either"
    kinds = p.kinds()
    st = s.strip()
    if s.lower() in p.enum_members_lower() and s:
        if (t, key) in gen.QUOTED_ENUM or (t, key, s.lower()) in gen.QUOTED_ENUM_MEMBERS:
            return "quoted"
        return "bare-enum"
    if len(st) >= 2 and st[0] == "[" and st[-1] == "]":
        if "attribute" in kinds and "]" not in st[1:-1] and " " not in st:
            return "bind"
        return "either"
    if len(st) >= 2 and st[0] == "(" and st[-1] == ")":
        return "expr" if "expression" in kinds else ("quoted" if kinds <= {"string", "hexcolor"} else "either")
    if st.startswith("NOT ") and st[4:].strip().startswith("(") and st.endswith(")") and "expression" in kinds:
        return "not-expr"
    if len(st) > 2 and st[0] == "/" and (st[-1] == "/" or st.endswith("/i")):
        return "regex" if "regex" in kinds else ("quoted" if not gen.expression_capable(p) and kinds <= {"string", "hexcolor", "number", "integer"} else "either")
    if len(st) >= 2 and st[0] == "{" and st[-1] == "}":
        return "list" if (key == "expression" and "expression" in kinds) else ("quoted" if not gen.expression_capable(p) else "either")
    if HEX.match(s) and "hexcolor" in kinds:
        return "quoted"
    if (len(st) >= 3 and st[-1] == "i" and st[0] in "\"'" and st[-2] == st[0]) or st.startswith("`"):
        return "either"
    if "string" in kinds or "hexcolor" in kinds:
        return "quoted"
    return "either"


class Walker:
    def __init__(self, text, opts, rep):
        self.text = text
        self.opts = opts
        self.rep = rep
        self.all = reader.scan(text)
        self.toks = [t for t in self.all if t.kind not in ("comment", "ccomment")]
        self.i = 0
        self.stmts = []  # (kind, depth, first token, info)
        self.q = opts["quote"]

    def peek(self):
        return self.toks[self.i] if self.i < len(self.toks) else None

    def take(self):
        t = self.peek()
        self.i += 1
        return t

    class Desync(Exception):
        pass

    def expect_word(self, word, what, path):
        t = self.take()
        if t is None or t.kind != "word" or t.text.upper() != word.upper():
            self.rep.c("text-does-not-follow-dictionary", f"{path}: expected {what} {word.upper()!r}, found "
                       f"{(t.kind + ' ' + t.text[:40]) if t else 'end of text'} (line {t.line if t else '-'})")
            raise Walker.Desync()
        return t

    # ---- values
    def quoted_value(self, s, path, what="string"):
        t = self.take()
        self.rep.stats["values_checked"] += 1
        if t is None or t.kind not in ("dq", "sq"):
            self.rep.c("value-not-quoted", f"{path}: {what} {s!r} must be a quoted string, found "
                       f"{(t.kind + ' ' + t.text[:40]) if t else 'end of text'}")
            if t is None or t.kind in ("comment",):
                raise Walker.Desync()
            if t.kind == "word" and t.text != str(s):
                self.i -= 1
                raise Walker.Desync()
            return t
        if t.text[0] != self.q:
            self.rep.c("wrong-quote-character", f"{path}: {t.text[:30]} written with a quote other than {self.q}")
        if reader.string_content(t) != s or t.text[-1] != t.text[0]:
            self.rep.c("string-content-changed", f"{path}: wrote {t.text[:60]!r} for {s!r}")
        return t

    def number_value(self, v, path):
        t = self.take()
        self.rep.stats["values_checked"] += 1
        ok = t is not None and t.kind == "num"
        if ok:
            try:
                ok = float(t.text) == float(v)
            except ValueError:
                ok = False
        if not ok:
            self.rep.c("number-not-bare-or-changed", f"{path}: wrote {(t.text[:40] if t else None)!r} for number {v!r}")
            if t is None or t.kind not in ("dq", "sq", "word", "num"):
                raise Walker.Desync()
        return t

    def string_value(self, typ, key, s, path, in_list=False):
        cls = required_class(typ, key, s)
        if in_list:
            p = vocab.prop(typ, key) if typ in vocab.object_types() else None
            kinds = p.kinds() if p else set()
            st = s.strip()
            if len(st) >= 2 and st[0] == "[" and st[-1] == "]" and kinds & {"bindlist", "tuple", "mixedlist"}:
                cls = "bind"
            elif kinds & {"strlist"} or HEX.match(s):
                cls = "quoted"
            else:
                cls = "either" if not kinds & {"bindlist", "tuple", "mixedlist", "numlist"} else "quoted"
        self.rep.classes.add(f"{typ}.{key}:{cls}")
        self.rep.stats["class:" + cls] += 1
        if cls == "quoted":
            return self.quoted_value(s, path)
        t = self.take()
        self.rep.stats["values_checked"] += 1
        if t is None:
            self.rep.c("value-missing", f"{path}: no value written for {s!r}")
            raise Walker.Desync()
        if cls == "bare-enum":
            if t.kind not in ("word", "num") or t.text.lower() != s.lower():
                self.rep.c("enum-value-not-bare", f"{path}: enumerated value {s!r} written as {t.kind} {t.text[:40]!r}")
                if t.kind not in ("dq", "sq", "word"):
                    raise Walker.Desync()
            return t
        want_kind = {"bind": "bind", "expr": "expr", "regex": "regex", "list": "list"}.get(cls)
        if want_kind:
            if t.kind != want_kind or t.text != s.strip():
                self.rep.c(f"{cls}-not-written-verbatim-unquoted", f"{path}: {s!r} written as {t.kind} {t.text[:60]!r}")
                if t.kind not in ("dq", "sq", want_kind):
                    raise Walker.Desync()
            return t
        if cls == "not-expr":
            t2 = self.take()
            if t.kind != "word" or t.text.upper() != "NOT" or t2 is None or t2.kind != "expr" or \
                    "NOT " + t2.text != re.sub(r"^NOT\s+", "NOT ", s.strip()):
                self.rep.c("not-expression-not-written-verbatim", f"{path}: {s!r} written as {t.text[:30]!r} {t2.text[:40] if t2 else None!r}")
                raise Walker.Desync()
            return t
        # either: content only
        if t.kind in ("dq", "sq"):
            if reader.string_content(t) != s and t.text != s:
                self.rep.c("string-content-changed", f"{path}: wrote {t.text[:60]!r} for {s!r}")
        elif t.text != s.strip():
            # a bare rendering may consist of several scanner tokens (e.g. [a]-[b]); join until the text is consumed
            acc = t.text
            end = t.end
            while acc != s.strip() and self.peek() is not None and len(acc) < len(s.strip()):
                nt = self.take()
                acc += self.text[end:nt.start] + nt.text
                end = nt.end
            if acc != s.strip():
                self.rep.c("value-changed", f"{path}: wrote {acc[:60]!r} for {s!r}")
                raise Walker.Desync()
        return t

    def value(self, typ, key, v, path, in_list=False):
        if isinstance(v, bool):
            t = self.take()
            self.rep.stats["values_checked"] += 1
            if t is None or t.kind != "word" or t.text.upper() != ("TRUE" if v else "FALSE"):
                self.rep.c("boolean-not-bare", f"{path}: {v!r} written as {(t.text[:30] if t else None)!r}")
                if t is None or t.kind not in ("dq", "sq", "word"):
                    raise Walker.Desync()
            return t
        if isinstance(v, (int, float)):
            return self.number_value(v, path)
        if isinstance(v, str):
            return self.string_value(typ, key, v, path, in_list)
        if isinstance(v, (list, tuple)):
            first = None
            for i, x in enumerate(v):
                t = self.value(typ, key, x, f"{path}[{i}]", in_list=True)
                first = first or t
            return first
        if v is None:
            t = self.take()
            return t
        self.rep.c("unrepresentable-value-written", f"{path}: value of type {type(v).__name__}")
        raise Walker.Desync()

    # ---- statements
    def stmt(self, kind, depth, first, **info):
        self.stmts.append((kind, depth, first, info))
        self.rep.stats["stmt:" + kind] += 1

    def obj(self, d, depth, path):
        t = d["__type__"]
        first = self.expect_word(t, "block opener", path)
        self.stmt("open", depth, first, type=t, obj=d)
        self.rep.stats["objects"] += 1
        list_keys = vocab.object_list_keys()
        kv = vocab.kv_keys()
        for k, v in d.items():
            if is_hidden(k):
                continue
            p = vocab.prop(t, k) if t in vocab.object_types() else None
            kpath = f"{path}.{k}"
            if isinstance(v, dict) and not v and _container_key(t, k):
                if k in ("pattern", "projection"):
                    f = self.expect_word(k, "keyword", kpath)
                    self.stmt("kvopen", depth + 1, f, type=k)
                    self.stmt("kvend", depth + 1, self.expect_word("END", "END of " + k, kpath), type=k)
                continue
            if k in list_keys and isinstance(v, list):
                for i, c in enumerate(v):
                    self.obj(c, depth + 1, f"{kpath}[{i}]")
            elif k == "pattern":
                self.pair_block(k, v, depth + 1, kpath)
            elif k in kv and isinstance(v, dict):
                self.kv_block(k, v, depth + 1, kpath)
            elif k == "projection":
                f = self.expect_word(k, "keyword", kpath)
                self.stmt("kvopen", depth + 1, f, type=k)
                if isinstance(v, str):
                    self.stmt("pstr", depth + 2, self.quoted_value(v, kpath, "projection string"))
                elif len(v) == 1 and isinstance(v[0], str) and v[0].upper() == "AUTO":
                    self.stmt("pstr", depth + 2, self.expect_word("AUTO", "projection", kpath))
                else:
                    for i, s in enumerate(v):
                        self.stmt("pstr", depth + 2, self.quoted_value(s, f"{kpath}[{i}]", "projection string"))
                self.stmt("kvend", depth + 1, self.expect_word("END", "END of " + k, kpath), type=k)
            elif p is not None and "repeat" in p.kinds() and isinstance(v, list):
                for i, s in enumerate(v):
                    f = self.expect_word(k, "keyword", kpath)
                    self.stmt("attr", depth + 1, f, key=k, simple=True, vtok=self.quoted_value(s, f"{kpath}[{i}]"))
            elif k == "points":
                multi = bool(v) and isinstance(v[0], (list, tuple)) and bool(v[0]) and isinstance(v[0][0], (list, tuple))
                for part in (v if multi else [v]):
                    self.pair_block(k, part, depth + 1, kpath)
            elif k == "config" and isinstance(v, dict):
                for ck, cv in v.items():
                    if is_hidden(ck):
                        continue
                    f = self.expect_word("CONFIG", "keyword", kpath)
                    kt = self.take()
                    if kt is None or kt.kind not in ("dq", "sq") or reader.string_content(kt).lower() != ck.lower():
                        self.rep.c("config-key-changed", f"{kpath}: CONFIG key {ck!r} written as {(kt.text[:40] if kt else None)!r}")
                        raise Walker.Desync()
                    # CONFIG values are strings in MapServer: a number stored there is written as the quoted numeral
                    self.quoted_value(cv if isinstance(cv, str) else str(cv), f"{kpath}.{ck}")
                    self.stmt("config", depth + 1, f)
            elif isinstance(v, dict) and "__type__" in v:
                self.obj(v, depth + 1, kpath)
            else:
                f = self.expect_word(k, "keyword", kpath)
                vt = self.value(t, k, v, kpath)
                self.stmt("attr", depth + 1, f, key=k, simple=True, vtok=vt)
        self.stmt("end", depth, self.expect_word("END", "END of " + t, path), type=t)

    def pair_block(self, k, pairs, depth, path):
        f = self.expect_word(k, "keyword", path)
        self.stmt("kvopen", depth, f, type=k)
        for i, pr in enumerate(pairs):
            a = self.number_value(pr[0], f"{path}[{i}][0]")
            self.number_value(pr[1], f"{path}[{i}][1]")
            self.stmt("pair", depth + 1, a)
        self.stmt("kvend", depth, self.expect_word("END", "END of " + k, path), type=k)

    def kv_block(self, k, d, depth, path):
        f = self.expect_word(k, "keyword", path)
        self.stmt("kvopen", depth, f, type=k)
        for kk, vv in d.items():
            if is_hidden(kk):
                continue
            a = self.quoted_value(kk, f"{path}.<key {kk!r}>", "key")
            self.quoted_value(vv if isinstance(vv, str) else str(vv), f"{path}.{kk}")
            self.stmt("pair", depth + 1, a)
        self.stmt("kvend", depth, self.expect_word("END", "END of " + k, path), type=k)


def check(composites, text, opts):
    """opts: quote, newlinechar, indent(int), spacer(single spacer string), end_comment, align_values."""
    rep = Report()
    bad = unrepresentable(composites)
    if bad:
        rep.c("unrepresentable-value-written", f"dumps returned text although {bad[0]} holds a dict without __type__ "
              f"(no Mapfile representation)")
        return rep
    rep.skipped = precondition(composites, opts["quote"], opts["newlinechar"], opts["end_comment"])
    if rep.skipped:
        return rep
    roots = composites if isinstance(composites, list) else ([composites] if composites else [])
    try:
        w = Walker(text, opts, rep)
    except reader.ScanError as ex:
        rep.c("output-not-scannable", str(ex))
        return rep
    try:
        for i, d in enumerate(roots):
            path = f"$[{i}]" if len(roots) > 1 else "$"
            if d["__type__"] in vocab.kv_keys():
                w.kv_block(d["__type__"], d, 0, path)
            else:
                w.obj(d, 0, path)
        if w.peek() is not None:
            t = w.peek()
            rep.c("text-has-more-than-the-dictionary", f"extra token {t.kind} {t.text[:40]!r} at line {t.line}")
    except Walker.Desync:
        return rep
    rep.stats["tokens"] = len(w.toks)
    layout(w, text, opts, rep, roots)
    return rep


# ------------------------------------------------------------------------------------------------
# C16: layout


def _line_breaks_in_values(d):
    """Number of LF characters in the string keys / values of a dictionary (kept comments are not values)."""
    if isinstance(d, dict):
        return sum((k.count("\n") if isinstance(k, str) else 0) + _line_breaks_in_values(v) for k, v in d.items() if not is_hidden(k))
    if isinstance(d, (list, tuple)):
        return sum(_line_breaks_in_values(v) for v in d)
    return d.count("\n") if isinstance(d, str) else 0


def layout(w, text, opts, rep, roots=None):
    nl = opts["newlinechar"]
    if "\n" not in nl:
        rep.stats["layout_skipped_no_linebreak"] += 1
        return
    if roots is not None:
        # 0. a keyword line is ONE line unless its value itself holds a line break: the value tokens of the text span exactly as many
        #    line breaks as the dictionary's strings contain
        in_text = sum(t.text.count("\n") for t in w.toks if t.kind in ("dq", "sq", "expr", "list", "bq", "regex"))
        in_dict = _line_breaks_in_values(roots)
        if in_text != in_dict:
            rep.l("keyword-line-broken-inside-its-value", f"value tokens of the text span {in_text} line break(s), the dictionary's strings hold {in_dict}")
    unit = opts["unit"] if opts.get("unit") is not None else opts["spacer"] * opts["indent"]
    # 1. every line break is newlinechar (outside string tokens)
    masked = list(text)
    for t in w.all:
        if t.kind in ("dq", "sq", "ccomment", "expr", "list", "bq"):  # (an expression may hold a string literal with a line break)
            for i in range(t.start, t.end):
                if masked[i] in "\r\n":
                    masked[i] = " "
    m = "".join(masked)
    stripped = m.replace(nl, "")
    if "\n" in stripped or "\r" in stripped:
        rep.l("line-break-is-not-newlinechar", f"stray CR/LF outside strings (newlinechar={nl!r})")
        return
    # line starts
    starts = [0]
    pos = 0
    while True:
        j = m.find(nl, pos)
        if j < 0:
            break
        starts.append(j + len(nl))
        pos = j + len(nl)
    import bisect

    def line_of(tok):
        return bisect.bisect_right(starts, tok.start) - 1

    tok_lines = collections.defaultdict(list)
    for t in w.toks:
        tok_lines[line_of(t)].append(t)
    open_stack = []
    align_groups = collections.defaultdict(list)  # id(obj) -> [(key, keytok, vtok)]
    for kind, depth, first, info in w.stmts:
        li = line_of(first)
        ls = starts[li]
        rep.stats["layout_lines_checked"] += 1
        rep.linekinds.add(f"{kind}@{min(depth, 6)}")
        # own line: the statement's first token is the first token on its line
        if tok_lines[li][0] is not first:
            rep.l("statement-not-on-its-own-line", f"{kind} {first.text[:30]!r} at line {li + 1} follows {tok_lines[li][0].text[:30]!r}")
            continue
        ind = text[ls:first.start]
        want = unit * depth
        if ind != want:
            rep.l("indentation", f"{kind} {first.text[:30]!r} at line {li + 1}: indentation {ind!r} != {want!r} (depth {depth})")
        if kind in ("open", "kvopen"):
            open_stack.append((info.get("type"), depth, info.get("obj")))
        elif kind in ("end", "kvend"):
            if not open_stack:
                rep.l("end-without-opener", f"line {li + 1}")
                continue
            otype, odepth, _ = open_stack.pop()
            if odepth != depth:
                rep.l("end-not-at-opener-indentation", f"END of {otype} at depth {depth}, opener at {odepth}")
            le = starts[li + 1] - len(nl) if li + 1 < len(starts) else len(text)
            rest = text[first.end:le]
            if opts["end_comment"]:
                if rest != f" # {otype.upper()}":
                    rep.l("end-comment", f"END of {otype} followed by {rest!r}, expected ' # {otype.upper()}'")
            elif rest.strip() and not rest.strip().startswith("#"):
                rep.l("text-after-end", f"END of {otype} followed by {rest!r}")
        elif kind == "attr" and opts["align_values"] and open_stack:
            align_groups[id(open_stack[-1][2])].append((info["key"], first, info.get("vtok"), li))
    if opts["align_values"]:
        step = max(opts["indent"], 1)
        for group in align_groups.values():
            maxlen = max(len(k) for k, _, _, _ in group)
            col = (maxlen // step + 1) * step
            for k, kt, vt, li in group:
                if vt is None:
                    continue
                if line_of(vt) != li:
                    continue
                off = vt.start - kt.start
                rep.stats["aligned_values_checked"] += 1
                if off != col:
                    rep.l("value-alignment", f"{k.upper()} value starts {off} columns after the keyword, expected {col} "
                          f"(longest simple keyword {maxlen}, indent {opts['indent']})")
