"""Independent hand-written scanner for Mapfile text (source files and pretty-printer output).

Shares nothing with mappyfile's grammar.  It knows the lexical classes MapServer distinguishes:
   comment (# to end of line), ccomment (/* ... */), dq / sq / bq strings (backslash-quote escapes),
   bind ([...]), expr (balanced parentheses, string-aware), list ({...}), regex (/.../ or /.../i, \\\\...\\\\),
   num, word (bare word).
A '#' outside a string starts a comment: an unquoted #aabbcc is a comment and its keyword has no value -
exactly what MapServer would see.
"""
from __future__ import annotations

import re

NUM_RE = re.compile(r"[-+]?(?:\d+\.\d*(?:[eE][-+]?\d+)?|\.\d+(?:[eE][-+]?\d+)?|\d+(?:[eE][-+]?\d+)?)(?![_A-Za-z0-9.])")
WORD_STOP = set(" \t\f\r\n\"'#")


class Tok:
    __slots__ = ("kind", "text", "start", "end", "line", "col")

    def __init__(self, kind, text, start, end, line, col):
        self.kind, self.text, self.start, self.end, self.line, self.col = kind, text, start, end, line, col

    def __repr__(self):
        return f"{self.kind}:{self.text!r}@{self.line}:{self.col}"


class ScanError(Exception):
    pass


def scan(text, keep_comments=True):
    toks = []
    i = 0
    n = len(text)
    line = 1
    line_start = 0

    def add(kind, j):
        nonlocal i, line, line_start
        s = text[i:j]
        toks.append(Tok(kind, s, i, j, line, i - line_start + 1))
        nl = s.count("\n")
        if nl:
            line += nl
            line_start = i + s.rfind("\n") + 1
        i = j

    while i < n:
        ch = text[i]
        if ch == "\n":
            line += 1
            line_start = i + 1
            i += 1
            continue
        if ch in " \t\f\r":
            i += 1
            continue
        if ch == "#":
            j = text.find("\n", i)
            j = n if j < 0 else j
            if j > i and text[j - 1] == "\r":
                j -= 1
            add("comment", j)
            continue
        if ch == "/" and text.startswith("/*", i):
            j = text.find("*/", i + 2)
            if j >= 0:
                add("ccomment", j + 2)
                continue
            # "/*" that is never closed is not a comment (the repository's tests pin EXPRESSION /*1/ as a regex)
        if ch in "\"'":
            j = i + 1
            while j < n:
                if text[j] == "\\" and j + 1 < n and text[j + 1] == ch:
                    j += 2
                    continue
                if text[j] == ch:
                    break
                j += 1
            if j >= n:
                raise ScanError(f"unterminated string at line {line}")
            j += 1
            if j < n and text[j] == "i" and (j + 1 == n or text[j + 1] in WORD_STOP):
                j += 1
            add("dq" if ch == '"' else "sq", j)
            continue
        if ch == "`":
            j = text.find("`", i + 1)
            if j < 0:
                raise ScanError("unterminated `")
            add("bq", j + 1)
            continue
        if ch == "[":
            j = text.find("]", i)
            if j < 0:
                raise ScanError("unterminated [")
            add("bind", j + 1)
            continue
        if ch == "{":
            j = text.find("}", i)
            if j < 0:
                raise ScanError("unterminated {")
            add("list", j + 1)
            continue
        if ch == "(":
            j = _balanced(text, i)
            add("expr", j)
            continue
        if ch == "/":
            j = text.find("/", i + 1)
            if j < 0:
                raise ScanError("unterminated /regex/")
            j += 1
            if j < n and text[j] == "i" and (j + 1 == n or text[j + 1] in WORD_STOP):
                j += 1
            add("regex", j)
            continue
        if ch == "\\" and text.startswith("\\\\", i):
            j = text.find("\\\\", i + 2)
            if j < 0:
                raise ScanError("unterminated \\\\regex\\\\")
            j += 2
            if j < n and text[j] == "i":
                j += 1
            add("regex", j)
            continue
        m = NUM_RE.match(text, i)
        if m:
            add("num", m.end())
            continue
        j = i
        while j < n and text[j] not in WORD_STOP:
            j += 1
        if j == i:
            raise ScanError(f"cannot scan at {line}: {text[i:i+20]!r}")
        add("word", j)
    if not keep_comments:
        toks = [t for t in toks if t.kind not in ("comment", "ccomment")]
    return toks


def _balanced(text, i):
    depth = 0
    j = i
    n = len(text)
    while j < n:
        c = text[j]
        if c in "\"'`":
            k = j + 1
            while k < n:
                if text[k] == "\\" and k + 1 < n and text[k + 1] == c:
                    k += 2
                    continue
                if text[k] == c:
                    break
                k += 1
            j = k + 1
            continue
        if c == "(":
            depth += 1
        elif c == ")":
            depth -= 1
            if depth == 0:
                return j + 1
        j += 1
    raise ScanError("unbalanced (")


def string_content(tok):
    """Content of a dq/sq token (outer quotes and a trailing i flag removed)."""
    t = tok.text
    if t.endswith("i") and len(t) >= 3 and t[-2] == t[0]:
        t = t[:-1]
    return t[1:-1]


def comments(text):
    """All comments of a text, in order: list of (comment text, line of its first character)."""
    return [(t.text, t.line) for t in scan(text) if t.kind in ("comment", "ccomment")]


# ------------------------------------------------------------------------------------------------
# reading pretty-printer output: one statement per line


class Stmt:
    __slots__ = ("lineno", "indent", "tokens", "comment", "raw")

    def __init__(self, lineno, indent, tokens, comment, raw):
        self.lineno, self.indent, self.tokens, self.comment, self.raw = lineno, indent, tokens, comment, raw

    def __repr__(self):
        return f"Stmt({self.lineno},{self.indent!r},{self.tokens},{self.comment!r})"


def read_lines(text, newlinechar):
    """Printer output -> list of Stmt (one per output line that holds tokens or a comment).

    Lines are split on `newlinechar`; a quoted string may span several lines (multi-line string values): the
    scanner runs over the whole text and tokens are assigned to the line they start on.
    """
    toks = scan(text)
    if newlinechar in ("\n", "\r\n"):
        starts = [0]
        pos = 0
        while True:
            j = text.find(newlinechar, pos)
            if j < 0:
                break
            starts.append(j + len(newlinechar))
            pos = j + len(newlinechar)
    else:
        starts = [0]
    import bisect

    lines = {}
    for t in toks:
        li = bisect.bisect_right(starts, t.start) - 1
        lines.setdefault(li, []).append(t)
    out = []
    for li in sorted(lines):
        ts = lines[li]
        ls = starts[li]
        first = ts[0]
        indent = text[ls:first.start]
        comment = None
        body = ts
        if ts and ts[-1].kind in ("comment", "ccomment") and len(ts) > 1:
            comment = ts[-1]
            body = ts[:-1]
        elif ts and ts[0].kind in ("comment", "ccomment"):
            comment = ts[0]
            body = ts[1:]
        out.append(Stmt(li + 1, indent, body, comment, text[ls:(starts[li + 1] if li + 1 < len(starts) else len(text))]))
    return out
