"""Schema-driven generator of an *intended structure* (IR) for Mapfile documents.

The IR knows what each token means; render.py writes it out under a surface policy, expect.py turns it into the
dictionary the documented text->dict contract promises.  Lexemes follow the way MapServer writes each value
alternative (DESIGN.md 1.2 "Lexeme rules"); generator domain restrictions are listed in DOMAIN.
"""
from __future__ import annotations

import re

from . import vocab
from . import exprmodel as X

DOMAIN = [
    "string values never contain an unescaped occurrence of the quote character used to write them, never end in a backslash, never hold CR",
    "free strings never look like a hex colour; strings of expression-capable keywords never look like an expression, regex, list or binding",
    "no token or line of a multi-line string starts with 'include'",
    "bare words: [A-Za-z_][A-Za-z0-9_]*, not a grammar literal, not a keyword of any schema",
    "colour components are integers, OFFSET/POLAROFFSET have exactly two items, numbers are plain decimals",
    "PROJECTION / POINTS / PATTERN blocks are non-empty",
]

HEXLIKE = re.compile(r"^#(?:[0-9a-fA-F]{3}){1,2}([0-9a-fA-F]{2})?$")
# identifier-like words, and words that start with ONE digit followed by a letter (other than the exponent letter) or underscore:
# 3D, 2ND, 7up, 9_a  (several leading digits - 50K - are not accepted unquoted by the grammar and are not claimed by C05)
# (Latin-1 letters U+00C0-U+00FF are spelled out in the grammar's bare-word class; the handful of other code points that Python's
# case-insensitive matching lets through as a side effect - dotted capital I, long s, Kelvin sign ... - are not claimed)
BARE_SAFE = re.compile(r"^(?:[A-Za-z_\u00c0-\u00d6\u00d8-\u00f6\u00f8-\u00ff]|[0-9](?=[A-DF-Za-df-z_]))[A-Za-z0-9_\u00c0-\u00d6\u00d8-\u00f6\u00f8-\u00ff]*$")

# value alternatives MapServer writes as a quoted string although the schema lists an enum
QUOTED_ENUM = {("composite", "compop")}
QUOTED_ENUM_MEMBERS = {("style", "geomtransform", "end")}
# schema slots that cannot be written in Mapfile text as the schema describes them (decided by C19, skipped here)
UNWRITABLE = {("label", "backgroundshadowsize"), ("style", "symbol:block"), ("class", "symbol:block")}


class Tok:
    """One value / keyword lexeme.

    kind: kw (keyword, case-insensitive) | word (bare word, written as is) | num | str (quoted string: text is the
    content) | raw (written verbatim: bindings, expressions, regexes, lists)
    """

    __slots__ = ("kind", "text", "flex", "pos")

    def __init__(self, kind, text, flex=()):
        self.kind = kind
        self.text = text
        self.flex = flex  # for str: subset of {"sq", "dq", "bare"} - ways it may be written without changing meaning
        self.pos = None

    def __repr__(self):
        return f"{self.kind}:{self.text!r}"


class Item:
    __slots__ = ("kind", "key", "shape", "toks", "value", "node", "pairs", "kw", "endtok", "comment", "above", "expr")

    def __init__(self, kind, key, **kw):
        self.kind = kind
        self.key = key
        self.shape = kw.get("shape")
        self.toks = kw.get("toks", [])
        self.value = kw.get("value")
        self.node = kw.get("node")
        self.pairs = kw.get("pairs")
        self.kw = Tok("kw", key.upper())
        self.endtok = Tok("kw", "END") if kind in ("kv", "projection", "pairs") else None
        self.comment = None  # trailing comment (C14)
        self.above = None  # comment lines directly above the opener (C14)
        self.expr = kw.get("expr")  # intended expression tree when shape == expression


class Node:
    __slots__ = ("type", "items", "kw", "endtok", "above", "parent")

    def __init__(self, type_, items=None):
        self.type = type_
        self.items = items or []
        self.kw = Tok("kw", type_.upper())
        self.endtok = Tok("kw", "END")
        self.above = None
        self.parent = None

    def walk(self):
        yield self
        for it in self.items:
            if it.kind == "block":
                yield from it.node.walk()

    def count(self):
        return sum(1 for _ in self.walk())

    def depth(self):
        return 1 + max([it.node.depth() for it in self.items if it.kind == "block"] or [0])


# ------------------------------------------------------------------------------------------------
# primitive lexemes

WORDS = ["roads", "Layer 1", "my_layer", "a b c", "x", "Ünïcödé", "日本語", "naïve café", "tab\there", "semi;colon",
         "it's", "path/to/file.shp", "C:/data/x.tif", "100%", "a=b", "what?", "name-with-dash", "under_score",
         "UPPER", "MixedCase", "e.g.", "50", "3.14", "-7", "true", "ON", "end", "layer", "#notcolour", "{curly",
         "[half", "(paren", "/slash", "two  spaces", " lead", "trail ", "*", "&", "@", "é", "€", "🌍 earth", "𝒳",
         # backslashes are content; a quote character directly behind one is an escaped quote
         "C:\\data\\x.tif", 'say \\"hi\\"', "it\\'s", "a\\\\b", 'C:\\\\maps\\\\\\"new roads\\"', "x\\n", "\\\\'q\\'", 'say "x" it\\\'s', "Napol'i", 'he said "i',
         # the word include inside a value, Unicode line separators and a form feed inside a value
         "wms_include_items", "please include me", "/srv/data/*.tif", "a/*b", "^[a-z/*]+$", "sep\u2028here", "nel\u0085x", "ff\x0chere", "vt\x0bx",
         # text that is not in a Unicode normal form (decomposed accents, a composition exclusion, compatibility characters): content
         "cafe\u0301 de\u0301compose\u0301", "\u0958a", "\u212bngstro\u0308m", "\ufb01ne \u2460"]
SAFE_BARE = ["roads", "my_layer", "x1", "Foo", "bar_2", "_u", "ABC", "lakes", "3D", "2ND", "1ST_FLOOR", "4X4", "7up", "9_a", "2d_buildings",
             "fonts.txt", "../etc/symbols.sym", "./data/shp", "data/roads.shp", "my-fonts/list.txt", "a.b.c",
             "caf\u00e9", "\u00dcn\u00efc\u00f6d\u00e9", "na\u00efve", "\u00c9cole_2", "stra\u00dfe"]


# file-name-like words (what the PATH terminal takes unquoted); a leading slash is the listed finding about absolute paths
BARE_PATH = re.compile(r"^(?:\.{1,2}/)?[A-Za-z_][A-Za-z0-9_-]*(?:[./][A-Za-z0-9_-]+)+$")


def is_bare_safe(s):
    return bool(BARE_SAFE.match(s) or BARE_PATH.match(s)) and s.upper() not in vocab.grammar_literals() and \
        s.lower() not in vocab.all_keywords() and not s.lower().startswith("include")


def _unescaped(s, q):
    from .relations import unescaped
    return unescaped(s, q)


def str_tok(content):
    flex = set()
    if '"' not in content and "'" not in content:
        flex.update(("dq", "sq"))
    elif not _unescaped(content, '"'):
        flex.add("dq")  # every double quote inside is written \" (one way to write it: C05 only swaps quotes around strings holding neither)
    elif not _unescaped(content, "'"):
        flex.add("sq")
    if is_bare_safe(content):
        flex.add("bare")
    return Tok("str", content, frozenset(flex))


def kv_tok(content):
    """Keys and values of METADATA-like blocks and of CONFIG: unquoted only when identifier-like (file-name-like words are taken
    unquoted as attribute values only)."""
    t = str_tok(content)
    return t if BARE_SAFE.match(content) else nobare(t)


def nobare(t):
    t.flex = frozenset(t.flex - {"bare"})
    return t


def looks_special(s):
    t = s.strip()
    return bool(t) and ((t[0] == "(" and t[-1] == ")") or (t[0] == "[" and t[-1] == "]") or (t[0] == "{" and t[-1] == "}")
                        or (t[0] == "/" and t[-1] == "/") or (len(t) >= 3 and t[-1] == "i" and t[0] in "\"'" and t[-2] == t[0])
                        or t.startswith("NOT "))


def ok_string(s, expression_capable=False):
    if s.endswith("\\") or "\r" in s or HEXLIKE.match(s):
        return False
    if _unescaped(s, '"') and _unescaped(s, "'"):
        return False
    for line in s.split("\n"):
        if line.strip().lower().startswith("include"):
            return False
    if expression_capable and looks_special(s):
        return False
    return True


_ENUM_WORDS = []


def enum_words():
    """Every enumerated word of any keyword: used as FREE-string values of other keywords (a word that is an enum member for one
    keyword must still be written as a quoted string for a keyword where it is just text)."""
    if not _ENUM_WORDS:
        seen = set()
        for o in vocab.object_types():
            for p in vocab.props(o).values():
                for a in p.alts:
                    if a.kind == "enum":
                        for m in a.info["members"]:
                            if isinstance(m, str) and m not in seen and not m.lower().startswith("include"):
                                seen.add(m)
                                _ENUM_WORDS.append(m)
    return _ENUM_WORDS


MULTILINE = [True]  # workloads that cut documents at line boundaries (C15) switch multi-line strings off


def rand_string(r, expression_capable=False, minlen=None, maxlen=None, multiline_ok=True):
    multiline_ok = multiline_ok and MULTILINE[0]
    for _ in range(50):
        k = r.random()
        if maxlen == 1:
            s = r.choice("abcXYZ .,;é€/|~ßŉǰẞ")  # (some one-character strings grow under case FOLDING, none under lower-casing)
        elif k < 0.08:
            s = r.choice(enum_words())
            s = r.choice([s, s.upper(), s.lower()])
        elif k < 0.15:
            # a word that merely starts with, ends with or contains a word the grammar knows as a literal (selected_parcels, hilites)
            lit = r.choice(sorted(vocab.grammar_literals())).lower()
            s = r.choice([lit + "_parcels", lit + "s", lit.title() + "-2024", "un" + lit, lit + "2", lit.upper() + "_X"])
        elif k < 0.55:
            s = r.choice(WORDS)
        elif k < 0.7:
            s = r.choice(SAFE_BARE)
        elif k < 0.8:
            s = " ".join(r.choice(WORDS) for _ in range(r.randint(2, 4)))
        elif k < 0.85 and multiline_ok:
            s = r.choice(WORDS) + "\n" + r.choice(["", "  "]) + r.choice(WORDS)
        elif k < 0.9:
            s = ""
        elif k < 0.95:
            s = r.choice(["say \"hi\"", "it's", "d'accord", 'a "quoted" word', "'abc'", '"abc"', "'", '"', "'a' and 'b'", '"x" or "y"', "''"])
        else:
            s = "".join(chr(r.choice([r.randint(0x21, 0x7e), r.randint(0xa1, 0x24f), r.randint(0x400, 0x4ff),
                                      r.randint(0x4e00, 0x4eff), r.randint(0x1f300, 0x1f3ff)])) for _ in range(r.randint(1, 8)))
        if minlen and len(s) < minlen:
            continue
        if maxlen and len(s) > maxlen:
            continue
        if ok_string(s, expression_capable):
            return s
    return "x"


def num_tok(v):
    """Numbers are written in plain decimal notation; a float whose repr uses an exponent (|v| < 1e-4 or >= 1e16) is still written
    in plain decimals (0.00001, 10000000000000000.0) - the printer may then write it back in exponent form."""
    if isinstance(v, float):
        t = repr(v)
        if "inf" in t or "nan" in t:
            v = 0.0
            t = "0.0"
        if "e" in t or "E" in t:
            import decimal
            t = format(decimal.Decimal(t), "f")
            if "." not in t:
                t += ".0"
        return Tok("num", t), v
    return Tok("num", str(v)), v


EXTREME_FLOATS = [0.00001, 0.000025, 0.0000001, 0.00009999, 10000000000000000.0, 2.5e17, 1e22, 123456789.123456789, 0.1 + 0.2]


def rand_number(r, node, integer=False, fault=None):
    lo = node.get("minimum")
    hi = node.get("maximum")
    xlo = node.get("exclusiveMinimum")
    if isinstance(xlo, bool):
        xlo = lo if xlo else None
    if lo is None and isinstance(xlo, (int, float)):
        lo = xlo + (1 if integer else 0.5)
    elif isinstance(xlo, (int, float)) and lo is not None and lo <= xlo:
        lo = xlo + (1 if integer else 0.5)
    if lo is None:
        lo = -1000 if hi is None else hi - 1000
    if hi is None:
        hi = lo + 2000
    if not integer and r.random() < 0.06:
        # magnitudes whose float repr switches to exponent notation, still inside the keyword's bounds
        cands = [x for x in EXTREME_FLOATS + [-x for x in EXTREME_FLOATS] if (node.get("minimum") is None or x >= node["minimum"])
                 and (node.get("maximum") is None or x <= node["maximum"]) and (xlo is None or x > xlo)]
        if cands:
            return r.choice(cands)
    if integer or r.random() < 0.5:
        a, b = int(-(-lo // 1)), int(hi // 1)
        if a > b:
            a = b = int(lo)
        v = r.choice([a, b, r.randint(a, b), r.randint(a, b)])
        if not integer and r.random() < 0.3:
            v = float(v)
            if not (lo <= v <= hi):
                v = float(a)
        return v
    v = round(r.uniform(lo, hi), r.choice([1, 2, 3]))
    v = min(max(v, lo), hi)
    return float(v)


BIND_NAMES = ["name", "ANGLE", "size_1", "col", "x", "Shape_Area", "a:b"]


def rand_bind(r):
    return "[" + r.choice(BIND_NAMES) + "]"


def rand_hex(r):
    n = r.choice([3, 6, 6, 8, 8])
    return "#" + "".join(r.choice("0123456789abcdefABCDEF") for _ in range(n))


def rand_expr(r, small=True):
    """(source text, intended tree) - the known mechanism of finding C10/mod-at-comparison-level is never generated here."""
    while True:
        t = X.rand_tree(r, r.randint(1, 3 if small else 6), rich=r.random() < 0.3)
        if not X.has_mod(t):
            break
    return "(" + X.render(t, r, 0.1) + ")", t


# keywords whose value is compared with an attribute (CLASSITEM / FILTERITEM ...): where MapServer takes "string"i besides /regex/i
ISTRING_KEYS = {("class", "expression"), ("layer", "filter"), ("label", "expression"), ("cluster", "group"), ("cluster", "filter")}


def rand_regex(r):
    body = r.choice(["^a", "ab+c", "^[0-9]+$", "a|b", "x.*y", "road", "^(north|south)$", "a b"])
    return "/" + body + "/" + r.choice(["", "", "i"])


# ------------------------------------------------------------------------------------------------
# one Item per (property, alternative)

EXPRESSION_CAPABLE = None


def expression_capable(p):
    return bool(p.kinds() & {"expression", "regex", "attribute"})


def writable_alts(p):
    out = []
    for a in p.alts:
        if a.kind in ("hidden",):
            continue
        if (p.obj, p.key) in UNWRITABLE:
            continue
        if a.kind == "block" and (p.obj, p.key + ":block") in UNWRITABLE:
            continue
        if a.kind == "enum" and p.key == "projection":
            continue  # AUTO is produced by the projection item itself
        if a.kind in ("block", "blocklist"):
            continue  # children are generated structurally
        out.append(a)
    return out


def make_item(p, a, r, gen_children=None):
    """An Item for property p written with alternative a (a non-block alternative)."""
    key = p.key
    k = a.kind
    if k == "enum":
        m = r.choice(a.info["members"])
        return enum_item(p, m, r)
    if k == "string":
        if a.info.get("literal"):
            s = a.info["literal"]
        elif a.info.get("pattern") and a.info["pattern"].startswith("^&#"):
            s = "&#%d;" % r.randint(33, 99999)
        else:
            s = rand_string(r, expression_capable(p), a.info.get("minlen"), a.info.get("maxlen"))
        return Item("attr", key, shape="string", toks=[str_tok(s)], value=s)
    if k in ("number", "integer"):
        v = rand_number(r, a.node, k == "integer")
        t, v = num_tok(v)
        return Item("attr", key, shape=k, toks=[t], value=v)
    if k == "boolean":
        b = r.random() < 0.5
        return Item("attr", key, shape="boolean", toks=[Tok("word", "TRUE" if b else "FALSE")], value=b)
    if k == "attribute":
        b = rand_bind(r)
        return Item("attr", key, shape="attribute", toks=[Tok("raw", b)], value=b)
    if k == "expression" and key == "expression" and r.random() < 0.12:
        # a list expression: the elements are kept as written (numbers are not re-spelled, words keep their case)
        els = [r.choice(["a", "road", "Main_St", "01", "007", "2.50", "+3", "1e3", "5.", ".5", "TRUE", "false", "x1", "-0", "10", "class one"])
               for _ in range(r.randint(1, 5))]
        # blanks after a comma are layout (one, two, several), as people write lists
        sep = r.choice([",", ",", ", ", ",  ", ",   "])
        s = "{" + els[0] + "".join((sep if r.random() < 0.7 else ",") + e for e in els[1:]) + "}"
        return Item("attr", key, shape="list", toks=[Tok("raw", s)], value=s, expr=els)
    if k == "expression":
        src, tree = rand_expr(r)
        return Item("attr", key, shape="expression", toks=[Tok("raw", src)], value=None, expr=tree)
    if k == "regex":
        s = rand_regex(r)
        if r.random() < 0.25 and (p.obj, key) in ISTRING_KEYS:
            # the other case-insensitive form: a quoted string followed by the i flag - stored with its own quotes and the flag
            s = r.choice(['"aitkin"i', "'x y'i", '"Ünï cödé"i', "'(paren'i", '"a/b"i',
                          # the other quote character, and an escaped quote of its own kind, inside the literal
                          '"it\'s"i', "'say \"x\"'i", '"say \\"hi\\""i', "'it\\'s'i", '"a\\"b"i'])
            return Item("attr", key, shape="istring", toks=[Tok("raw", s)], value=s)
        return Item("attr", key, shape="regex", toks=[Tok("raw", s)], value=s)
    if k == "hexcolor":
        h = rand_hex(r)
        return Item("attr", key, shape="hexcolor", toks=[Tok("str", h, frozenset({"dq", "sq"}))], value=h.lower())
    if k == "numlist":
        lo, hi = a.info["n"]
        n = lo if lo is not None else 2
        item = a.info["item"]
        is_rgb = n == 3
        vals = [rand_number(r, item, a.info["integer"] or is_rgb or n == 6) for _ in range(n)]
        if is_rgb and r.random() < 0.2:
            vals = [-1, -1, -1]
        toks, out = [], []
        for v in vals:
            t, v = num_tok(v)
            toks.append(t)
            out.append(v)
        return Item("attr", key, shape=f"numlist{n}", toks=toks, value=out)
    if k == "tuple":
        parts = a.info["parts"]
        lo, hi = a.info["n"]
        n = lo or len(parts)
        toks, out = [], []
        for i in range(n):
            part = parts[min(i, len(parts) - 1)]
            if part.kind == "attribute":
                b = rand_bind(r)
                toks.append(Tok("raw", b))
                out.append(b)
            else:
                t, v = num_tok(rand_number(r, part.node, part.kind == "integer"))
                toks.append(t)
                out.append(v)
        return Item("attr", key, shape="tuple:" + "+".join(pp.kind for pp in parts), toks=toks, value=out)
    if k == "bindlist":
        bs = [rand_bind(r), rand_bind(r)]
        return Item("attr", key, shape="bindlist", toks=[Tok("raw", b) for b in bs], value=bs)
    if k == "mixedlist":
        toks, out, sh = [], [], []
        for i in range(2):
            if r.random() < 0.5:
                b = rand_bind(r)
                toks.append(Tok("raw", b))
                out.append(b)
                sh.append("b")
            else:
                t, v = num_tok(rand_number(r, {}, r.random() < 0.5))
                toks.append(t)
                out.append(v)
                sh.append("n")
        return Item("attr", key, shape="mixedlist:" + "".join(sh), toks=toks, value=out)
    if k == "strlist":
        hs = [rand_hex(r), rand_hex(r)]
        return Item("attr", key, shape="hexrange", toks=[Tok("str", h, frozenset({"dq", "sq"})) for h in hs],
                    value=[h.lower() for h in hs])
    if k == "repeat":
        s = rand_string(r, False, multiline_ok=False)
        if key == "processing":
            s = r.choice(["BANDS=1,2,3", "SCALE=0,255", "CLOSE_CONNECTION=DEFER", "LABEL_NO_CLIP=ON", s])
        elif key == "formatoption":
            s = r.choice(["GAMMA=0.75", "QUALITY=80", "INTERLACE=OFF", s])
        return Item("repeat", key, shape="repeat", toks=[str_tok(s)], value=s)
    if k == "kv":
        n = r.randint(1, 5)
        pairs = []
        for _ in range(n):
            kk = r.choice(["wms_title", "WMS_SRS", "ows_enable_request", "Key One", "qstring", "default_x", "k-1", "a.b", "MiXeD",
                           # keys named like keywords that open blocks, keys that differ under case folding only, the word include
                           "projection", "metadata", "connectionoptions", "PATTERN", "points", "config", "validation", "values", "layer", "end",
                           "Straße", "STRASSE", "µm", "wms_include_items", "x",
                           # characters that mean something to a formatting template
                           "tile_{z}", "{value}", "{}", "{0}", "open{", "100%", "%s", "%(key)s", "$key", "a\\tb"])
            vv = rand_string(r, False)
            pairs.append((kv_tok(kk), kv_tok(vv)))
        if r.random() < 0.15:
            pairs.append((kv_tok(pairs[0][0].text.upper()), kv_tok("dup-" + rand_string(r, False, multiline_ok=False))))
        return Item("kv", key, shape="kv", pairs=pairs)
    if k == "config":
        kk = r.choice(["MS_ERRORFILE", "PROJ_LIB", "ON_MISSING_DATA", "ms_nonsquare", "CGI_CONTEXT_URL", "my_setting",
                       # names whose lower-cased form is not their case-folded form
                       "Straße_DIR", "µ_UNITS", "MAſS", "ΟΔΟΣ", "TILE_{Z}", "{}", "%S"])
        vv = {"ON_MISSING_DATA": r.choice(["IGNORE", "FAIL", "log"]), "ms_nonsquare": r.choice(["YES", "no"])}.get(kk)
        if vv is None or r.random() < 0.3:
            vv = rand_string(r, False, multiline_ok=False)  # (CONFIG values are free text for the validator: the schema lists them in upper case)
        return Item("config", key, shape="config", toks=[kv_tok(kk), kv_tok(vv)])
    if k == "projection":
        if r.random() < 0.2:
            return Item("projection", key, shape="projection:auto", toks=[Tok("word", "AUTO")], value=["AUTO"])
        if r.random() < 0.12:
            return Item("projection", key, shape="projection:0", toks=[], value=[])  # PROJECTION END: the grammar takes string*
        strs = r.choice([["init=epsg:4326"], ["init=epsg:3857"], ["proj=utm", "zone=15", "datum=NAD83", "units=m", "no_defs"],
                         ["proj=longlat", "ellps=WGS84"],
                         # the same parameters as people really write them: upper case, leading +, authority names in capitals
                         ["init=EPSG:4326"], ["+init=EPSG:27700"], ["INIT=epsg:4326"], ["init=ESRI:102003"],
                         ["+proj=utm", "+Zone=15", "+DATUM=NAD83", "+no_defs"], ["+proj=lcc +lat_1=49 +lat_2=77 +towgs84=0,0,0"],
                         # and projection strings are strings like any other
                         [rand_string(r, False, multiline_ok=False) or "x"], [rand_string(r, False, multiline_ok=False) or "y", "init=epsg:4326"]])
        return Item("projection", key, shape=f"projection:{min(len(strs), 2)}", toks=[nobare(str_tok(s)) for s in strs], value=list(strs))
    if k in ("pairs", "multipairs"):
        n = r.randint(1, 5)
        pairs = []
        for _ in range(n):
            a1, v1 = num_tok(rand_number(r, {"minimum": -100, "maximum": 100}, r.random() < 0.6))
            a2, v2 = num_tok(rand_number(r, {"minimum": -100, "maximum": 100}, r.random() < 0.6))
            pairs.append(((a1, v1), (a2, v2)))
        return Item("pairs", key, shape="pairs", pairs=pairs)
    raise ValueError(f"no lexeme rule for {p} {a}")


def enum_item(p, m, r, case=None):
    key = p.key
    if not isinstance(m, str):
        t, v = num_tok(m)
        return Item("attr", key, shape="enum:num", toks=[t], value=v)
    case = case or r.choice(["upper", "lower", "asis", "title", "mixed"])
    w = {"upper": m.upper(), "lower": m.lower(), "asis": m, "title": m.title(),
         "mixed": "".join(c.upper() if i % 2 else c.lower() for i, c in enumerate(m))}[case]
    if (p.obj, key) in QUOTED_ENUM or (p.obj, key, m.lower()) in QUOTED_ENUM_MEMBERS:
        # written quoted (a bare word would be read as something else); a quoted string keeps the letter case it was typed in
        return Item("attr", key, shape="enum:quoted", toks=[Tok("str", w, frozenset({"dq", "sq"}))], value=w)
    return Item("attr", key, shape="enum", toks=[Tok("word", w)], value=w)


# ------------------------------------------------------------------------------------------------
# random documents


class GenOpts:
    def __init__(self, **kw):
        self.max_depth = kw.get("max_depth", 5)
        self.max_objects = kw.get("max_objects", 60)
        self.dup = kw.get("dup", 0.04)  # probability of duplicating a non-repeatable keyword
        self.p_key = kw.get("p_key", 0.25)  # probability of drawing each schema keyword
        self.p_child = kw.get("p_child", 0.5)
        self.decay = kw.get("decay", 0.6)  # per-level decay of p_child (1.0 = as bushy at depth 5 as at depth 1)
        self.valid = kw.get("valid", False)  # supply required keywords, no duplicates
        self.gated = kw.get("gated", set())
        self.skip_keys = kw.get("skip_keys", set())
        self.dup_blocks = kw.get("dup_blocks", 0.0)  # probability of giving a key-value block twice in one object
        self.symbol_files = kw.get("symbol_files", True)  # now and then a stand-alone symbol file (SYMBOLSET root)


def gen_node(r, type_, opts, depth=1, budget=None):
    budget = budget if budget is not None else [opts.max_objects]
    budget[0] -= 1
    node = Node(type_)
    ps = vocab.props(type_)
    items = []
    for key, p in ps.items():
        if key.startswith("__") or key == "include" or key in opts.skip_keys:
            continue
        slots = vocab.child_slots(type_)
        alts = writable_alts(p)
        is_req = opts.valid and key in vocab.required(type_)
        if key in slots and (type_, key + ":block") not in UNWRITABLE:
            child, mode = slots[key]
            if depth < opts.max_depth and budget[0] > 0 and r.random() < opts.p_child * (opts.decay ** (depth - 1)):
                n = 1 if mode == "single" else r.choice([1, 1, 2, 3])
                if opts.valid:
                    mx = next((a.info["n"][1] for a in p.alts if a.kind == "blocklist" and a.info.get("n")), None)
                    if mx is not None:
                        n = min(n, mx)
                for _ in range(n):
                    if budget[0] <= 0:
                        break
                    c = gen_node(r, child, opts, depth + 1, budget)
                    c.parent = node
                    items.append(Item("block", key, shape="block", node=c))
                continue
        if not alts:
            continue
        if is_req or r.random() < opts.p_key:
            a = r.choice(alts)
            it = make_item(p, a, r)
            while opts.valid and ((it.shape == "expression" and "\n" in it.toks[0].text) or it.shape == "projection:0"):
                # (the schemas' expression patterns use '.', which stops at a line break: such a literal is valid Mapfile text
                # but not schema-valid, and "valid" documents are the ones the validation checks start from)
                it = make_item(p, a, r)
            items.append(it)
            rep = 0
            if it.kind == "repeat":
                rep = r.choice([0, 0, 1, 2])
            elif it.kind == "config":
                rep = r.choice([0, 1, 2])
            elif it.kind == "pairs" and any(al.kind == "multipairs" for al in p.alts):
                rep = r.choice([0, 0, 1, 2])
            elif not opts.valid and r.random() < opts.dup and it.kind in ("attr",):
                rep = 1
            elif not opts.valid and it.kind == "kv" and opts.dup_blocks and r.random() < opts.dup_blocks:
                rep = 1  # the same key-value block (METADATA ...) given twice in one object: the later one replaces the earlier
            for _ in range(rep):
                items.append(make_item(p, a if it.kind != "attr" else r.choice(alts), r))
    r.shuffle(items)
    apply_order_rules(node, items, opts)
    node.items = items
    return node


def apply_order_rules(node, items, opts):
    """Orderings required by listed known findings (feature gates)."""
    if "symbol-first-keyword" in opts.gated and node.type == "symbol":
        first_ok = {"anchorpoint", "antialias", "filled", "font", "image", "name", "color", "type", "character", "points",
                    "transparent"}
        for i, it in enumerate(items):
            if it.key in first_ok and it.kind != "block":
                items.insert(0, items.pop(i))
                break
        else:
            p = vocab.prop("symbol", "name")
            items.insert(0, Item("attr", "name", shape="string", toks=[str_tok("sym")], value="sym"))
    if "first-keyword-value-is-block-word" in opts.gated and node.type == "outputformat" and items:
        feat = any(it.key == "imagemode" and it.toks and it.toks[0].text.upper() == "FEATURE" for it in items)
        if feat and items[0].key == "imagemode":
            # the (deduplicated) first keyword must not be IMAGEMODE FEATURE, in the source and in re-printed text
            items.insert(0, Item("attr", "name", shape="string", toks=[str_tok("of")], value="of"))
            for it in items[1:]:
                if it.key == "name":
                    items.remove(it)
                    break
    if "querymap-style-keyword" in opts.gated and node.type == "querymap":
        styles = [it for it in items if it.key == "style"]
        if styles:
            items[:] = [it for it in items if it.key != "style"] + [styles[-1]]


def apply_gates(root, gated):
    """Apply the feature gates of listed known findings to every object of a (hand-built) tree."""
    opts = GenOpts(gated=set(gated))
    for n in root.walk():
        apply_order_rules(n, n.items, opts)
    return root


def gen_document(r, opts=None, root=None):
    """A list of root nodes (usually one)."""
    opts = opts or GenOpts()
    types = vocab.object_types()
    if root is None:
        if r.random() < 0.04 and opts.symbol_files:
            # a stand-alone symbol file: SYMBOLSET ... END, the one root that is not among the 19 block types (always alone)
            return [gen_node(r, "symbolset", opts)]
        root = r.choice(types + ("map", "map", "layer", "layer", "class", "style"))
    n = 1 if r.random() < 0.85 else r.randint(2, 3)
    return [gen_node(r, root if i == 0 else r.choice(types), opts) for i in range(n)]


# ------------------------------------------------------------------------------------------------
# the finite vocabulary sweep (W-vocab)


def filler(r, type_, exclude):
    """A simple keyword item of the same object to put around the slot under test."""
    ps = vocab.props(type_)
    cands = []
    for key, p in ps.items():
        if key.startswith("__") or key in ("include",) or key == exclude:
            continue
        alts = [a for a in writable_alts(p) if a.kind in ("string", "number", "integer", "boolean", "enum")]
        if alts and p.lo is None and p.hi is None:
            cands.append((p, alts))
    if not cands:
        return None
    # prefer keywords the symbol-keyword table knows when filling a SYMBOL block
    if type_ == "symbol":
        pref = [c for c in cands if c[0].key in ("name", "type", "filled", "character")]
        cands = pref or cands
    p, alts = r.choice(cands)
    a = r.choice(alts)
    it = make_item(p, a, r)
    while it.shape == "expression" and "\n" in it.toks[0].text:
        it = make_item(p, a, r)
    return it


def vocab_slots():
    """Every (object, keyword, alternative index) the schemas allow, in a deterministic order."""
    out = []
    for o in vocab.object_types():
        for key, p in vocab.props(o).items():
            if key.startswith("__") or key == "include":
                continue
            for i, a in enumerate(p.alts):
                if a.kind in ("hidden",):
                    continue
                out.append((o, key, i))
    return out


def vocab_doc(r, obj, key, alt_index, position, member=None, enum_case=None):
    """Minimal document with the slot at `position` (only/first/middle/last) of its block.
    Returns (root Node, slot Item) or None when the slot is a structural (block) alternative handled elsewhere."""
    p = vocab.prop(obj, key)
    a = p.alts[alt_index]
    if a.kind in ("block", "blocklist"):
        child = Node(a.info["child"])
        f = filler(r, a.info["child"], None)
        if f:
            child.items.append(f)
        it = Item("block", key, shape=a.kind, node=child)
    elif a.kind == "enum" and key == "projection":
        it = Item("projection", key, shape="projection:auto", toks=[Tok("word", "AUTO")], value=["AUTO"])
    elif a.kind == "enum" and member is not None:
        it = enum_item(p, member, r, enum_case)
    else:
        it = make_item(p, a, r)
        while (it.shape == "expression" and "\n" in it.toks[0].text) or it.shape == "projection:0":
            it = make_item(p, a, r)  # (representatives stay schema-valid: the schemas' expression patterns stop at a line break)
    node = Node(obj)
    before = {"only": 0, "first": 0, "middle": 1, "last": 2}[position]
    after = {"only": 0, "first": 2, "middle": 1, "last": 0}[position]
    items = []
    for _ in range(before):
        f = filler(r, obj, key)
        if f:
            items.append(f)
    items.append(it)
    for _ in range(after):
        f = filler(r, obj, key)
        if f:
            items.append(f)
    if (before or after) and len(items) == 1:
        # the object has no simple keyword besides the slot: fall back to a METADATA block as filler
        md = vocab.prop(obj, "metadata")
        if md:
            f = Item("kv", "metadata", shape="kv", pairs=[(str_tok("k"), str_tok("v"))])
            items = ([f] if before else []) + [it] + ([f] if after and not before else [])
    node.items = items
    if it.kind == "block":
        it.node.parent = node
    return node, it


# ------------------------------------------------------------------------------------------------
# placed comments (C14): unique texts at the placements the property makes claims about


def place_comments(nodes, r, p_trailing=0.7, p_above=0.7):
    """Attach uniquely numbered comments: '#' or single-line '/* */' at the end of every simple (non-repeatable,
    single-line) keyword line, '#' / '/* */' (also multi-line) lines directly above object / METADATA / VALIDATION /
    CONNECTIONOPTIONS openers.  Returns the list of placements [(text, kind, keyword-or-type, owner id)]."""
    n = [0]
    placed = []
    used_plain = set()

    def uid():
        n[0] += 1
        return f"c{n[0]}"

    def text(kind, multiline=False):
        words = r.choice(["note", "TODO: check", "x = 1", "'quoted'", "été", "100%", "(parens)", "[bind]", "END", "LAYER"])
        if kind == "#":
            return f"# {uid()} {words}"
        if multiline:
            return f"/* {uid()} {words}\n   second line */"
        return f"/* {uid()} {words} */"

    for root in nodes:
        for nd in root.walk():
            if r.random() < p_above:
                cs = []
                if r.random() < 0.2:
                    # banner style: the same separator line above and below a title (identical comment texts)
                    sep = r.choice(["# ------", "# ======", "/* ---- */", "# TODO"])
                    # (titles that read exactly like the comments dumps puts behind END: "# LAYER", "# MAP")
                    title = ("# " + nd.type.upper()) if r.random() < 0.4 else r.choice(["# LAYER", "# END", "# METADATA"]) if r.random() < 0.3 else text("#")
                    if not title.startswith("# c"):
                        if title in used_plain:
                            title = text("#")
                        else:
                            used_plain.add(title)
                    cs = [sep, title, sep] if r.random() < 0.7 else [sep, sep]
                else:
                    for _ in range(r.choice([1, 1, 2])):
                        k = r.choice(["#", "#", "/*"])
                        cs.append(text(k, multiline=(k == "/*" and r.random() < 0.4)))
                nd.above = cs
                for c in cs:
                    placed.append((c, "above", nd.type, id(nd)))
            seen = set()
            for it in nd.items:
                if it.kind == "attr":
                    multi = any("\n" in t.text for t in it.toks)  # (a string value or an expression literal running over several lines)
                    if not multi and it.key not in seen and r.random() < p_trailing:
                        it.comment = text(r.choice(["#", "#", "/*"]))
                        if r.random() < 0.08:
                            plain = r.choice(["# " + nd.type.upper(), "# LAYER", "# CLASS", "# STYLE", "# END", "# " + it.key.upper()])
                            if plain not in used_plain:  # (each such text once per document: trailing comments are looked up by their text)
                                used_plain.add(plain)
                                it.comment = plain
                        placed.append((it.comment, "trailing", it.key, id(it)))
                        if it.comment.startswith("#") and r.random() < 0.2:
                            # a /* */ comment in front of the # comment on the same line: only the # comment's place is claimed
                            it.comment = text("/*") + r.choice([" ", "  ", "\t"]) + it.comment
                    seen.add(it.key)
                elif it.kind == "kv" and it.key in ("metadata", "validation", "connectionoptions") and r.random() < p_above:
                    cs = [text(r.choice(["#", "/*"]))]
                    it.above = cs
                    placed.append((cs[0], "above", it.key, id(it)))
    return placed
