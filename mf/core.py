"""Shared framework pieces: environment, fingerprints, result accumulation.

Nothing in here knows anything about mappyfile except where it lives.
"""
from __future__ import annotations

import collections
import hashlib
import json
import os
import random
import subprocess
import sys
import time

VERIF = os.path.dirname(os.path.dirname(os.path.abspath(__file__)))
REPO = os.environ.get("MF_REPO", "/repo")
DEPS = os.path.join(VERIF, ".deps")
PY = "/venv/bin/python"
GUARD = "MAPPYFILE_VERIF"


def setup_env():
    """Put the repository's working tree first on sys.path and check that is what gets imported."""
    os.environ[GUARD] = "1"
    if REPO not in sys.path[:1]:
        sys.path.insert(0, REPO)
    ensure_deps()
    if DEPS not in sys.path:
        sys.path.append(DEPS)
    import mappyfile  # noqa

    f = os.path.realpath(mappyfile.__file__)
    if not f.startswith(os.path.realpath(REPO) + os.sep):
        print(f"INCONCLUSIVE reason=mappyfile imported from {f}, not from {REPO}")
        sys.exit(2)
    import logging

    # the library logs parse failures at ERROR level; keep the console quiet, observers attach their own handlers
    logging.getLogger("mappyfile").propagate = False
    return mappyfile


def ensure_deps():
    if not os.path.isdir(os.path.join(DEPS, "icontract")):
        subprocess.run([os.path.join(VERIF, "setup.sh")], check=False, stdout=subprocess.DEVNULL)


def seed_from_env() -> int:
    try:
        return int(os.environ.get("VERIF_SEED", "0"))
    except ValueError:
        return 0


def rng(seed: int, *salt) -> random.Random:
    h = hashlib.sha256(repr((seed,) + salt).encode()).digest()
    return random.Random(int.from_bytes(h[:8], "big"))


# ----------------------------------------------------------------------------------------------
# canonical fingerprints (type-tagged, order-preserving, cycle-safe)


def canon(o, _seen=None):
    """A JSON-able canonical form that distinguishes bool/int/float/str, list/tuple and keeps dict order."""
    if _seen is None:
        _seen = set()
    if o is None:
        return ["N"]
    if isinstance(o, bool):
        return ["b", o]
    if isinstance(o, int):
        return ["i", o]
    if isinstance(o, float):
        return ["f", repr(o)]
    if isinstance(o, str):
        return ["s", o]
    if isinstance(o, bytes):
        return ["y", o.hex()]
    oid = id(o)
    if oid in _seen:
        return ["CYCLE"]
    _seen.add(oid)
    try:
        if isinstance(o, dict):
            tag = "D:" + type(o).__name__
            extra = []
            if hasattr(o, "default_factory"):
                df = o.default_factory
                extra = [getattr(df, "__name__", repr(df)) if df is not None else None]
            return [tag, extra, [[canon(k, _seen), canon(v, _seen)] for k, v in o.items()]]
        if isinstance(o, list):
            return ["L", [canon(v, _seen) for v in o]]
        if isinstance(o, tuple):
            return ["T", [canon(v, _seen) for v in o]]
        if isinstance(o, (set, frozenset)):
            return ["S", sorted(json.dumps(canon(v, _seen)) for v in o)]
        return ["O", type(o).__name__, repr(o)[:200]]
    finally:
        _seen.discard(oid)


def fp(o) -> str:
    return hashlib.sha1(json.dumps(canon(o), ensure_ascii=True).encode()).hexdigest()


def plain(o, strip_hidden=False, seq_as_list=True):
    """Structural value used by the exact-equality relation: dict -> list of [key, value] (ordered),
    list/tuple -> list (sequence kind is not part of any contract), scalars type-tagged."""
    if isinstance(o, bool):
        return ("b", o)
    if isinstance(o, int):
        return ("i", o)
    if isinstance(o, float):
        return ("f", o)
    if isinstance(o, str):
        return ("s", o)
    if o is None:
        return ("N",)
    if isinstance(o, dict):
        return (
            "D",
            tuple(
                (k, plain(v, strip_hidden))
                for k, v in o.items()
                if not (strip_hidden and k in ("__position__", "__comments__"))
            ),
        )
    if isinstance(o, (list, tuple)):
        return ("L", tuple(plain(v, strip_hidden) for v in o))
    return ("O", repr(o))


def first_diff(a, b, path="$"):
    """Human-readable first difference between two plain() values, or None."""
    if a == b:
        return None
    if a[0] != b[0]:
        return f"{path}: {short(a)} != {short(b)}"
    if a[0] == "D":
        ka = [k for k, _ in a[1]]
        kb = [k for k, _ in b[1]]
        if ka != kb:
            return f"{path}: keys {ka} != {kb}"
        for (k, va), (_, vb) in zip(a[1], b[1]):
            d = first_diff(va, vb, f"{path}.{k}")
            if d:
                return d
    if a[0] == "L":
        if len(a[1]) != len(b[1]):
            return f"{path}: length {len(a[1])} != {len(b[1])}: {short(a)} != {short(b)}"
        for i, (va, vb) in enumerate(zip(a[1], b[1])):
            d = first_diff(va, vb, f"{path}[{i}]")
            if d:
                return d
    return f"{path}: {short(a)} != {short(b)}"


def short(x, n=160):
    s = repr(x)
    return s if len(s) <= n else s[: n - 3] + "..."


# ----------------------------------------------------------------------------------------------
# result accumulation (per worker; merged by the parent)

MAX_VIOLATIONS_KEPT = 40
MAX_SAMPLES = 6


class Result:
    def __init__(self):
        self.counters = collections.Counter()
        self.distinct = collections.defaultdict(set)
        self.violations = []
        self.nviol = 0
        self.samples = []
        self.notes = []
        self.inconclusive = []
        self.maxima = {}

    def count(self, name, n=1):
        self.counters[name] += n

    def seen(self, name, item):
        self.distinct[name].add(item if isinstance(item, str) else json.dumps(item, sort_keys=True, default=str))

    def maximum(self, name, v):
        if v > self.maxima.get(name, float("-inf")):
            self.maxima[name] = v

    def sample(self, s):
        if len(self.samples) < MAX_SAMPLES:
            self.samples.append(s)

    def violation(self, kind, case, observed=None, expected=None, **extra):
        """Record a refuting observation. `kind` is the mechanism-level clause that failed."""
        self.nviol += 1
        self.counters["violations:" + kind] += 1
        if len(self.violations) < MAX_VIOLATIONS_KEPT:
            v = {"kind": kind, "case": case, "observed": observed, "expected": expected}
            v.update(extra)
            self.violations.append(v)

    def inconclusive_because(self, reason):
        self.inconclusive.append(reason)

    def to_json(self):
        return {
            "counters": dict(self.counters),
            "distinct": {k: sorted(v) for k, v in self.distinct.items()},
            "violations": self.violations,
            "nviol": self.nviol,
            "samples": self.samples,
            "notes": self.notes,
            "inconclusive": self.inconclusive,
            "maxima": self.maxima,
        }

    def merge_json(self, j):
        self.counters.update(j["counters"])
        for k, v in j["distinct"].items():
            self.distinct[k].update(v)
        room = MAX_VIOLATIONS_KEPT - len(self.violations)
        self.violations.extend(j["violations"][: max(room, 0)])
        self.nviol += j["nviol"]
        for s in j["samples"]:
            self.sample(s)
        self.notes.extend(j["notes"])
        self.inconclusive.extend(j["inconclusive"])
        for k, v in j.get("maxima", {}).items():
            self.maximum(k, v)


class Ctx:
    """What a workload sees."""

    def __init__(self, prop, tier, seed, shard=0, nshards=1, replay=None):
        self.prop = prop
        self.tier = tier
        self.seed = seed
        self.shard = shard
        self.nshards = nshards
        self.replay = replay
        self.res = Result()
        self.t0 = time.time()
        self.gated = set()  # feature gates of listed known findings

    @property
    def quick(self):
        return self.tier == "quick"

    def rng(self, *salt):
        return rng(self.seed, self.prop, self.shard, *salt)

    def mine(self, i) -> bool:
        """Static round-robin sharding of an enumerated workload."""
        return i % self.nshards == self.shard

    def n(self, quick, thorough):
        """Per-shard share of a tier-dependent case count."""
        total = quick if self.quick else thorough
        base, rem = divmod(total, self.nshards)
        return base + (1 if self.shard < rem else 0)


def decanon(c):
    """Inverse of canon() for dict/list/tuple/scalar values (Mapfile dicts are rebuilt as CaseInsensitiveOrderedDict)."""
    from mappyfile.ordereddict import CaseInsensitiveOrderedDict as CI
    from collections import OrderedDict

    t = c[0]
    if t == "N":
        return None
    if t in ("b", "i", "s"):
        return c[1]
    if t == "f":
        return float(c[1])
    if t == "L":
        return [decanon(x) for x in c[1]]
    if t == "T":
        return tuple(decanon(x) for x in c[1])
    if t.startswith("D:"):
        if t == "D:dict":
            d = {}
        elif t == "D:OrderedDict":
            d = OrderedDict()
        else:
            d = CI(CI) if c[1] and c[1][0] else CI()
        for k, v in c[2]:
            d[decanon(k)] = decanon(v)
        return d
    raise ValueError(c)
