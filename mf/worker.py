"""One shard of one property's workload (child process)."""
from __future__ import annotations

import argparse
import faulthandler
import importlib
import json
import os
import sys
import traceback

from . import core


def main():
    ap = argparse.ArgumentParser()
    ap.add_argument("prop")
    ap.add_argument("--tier", default="quick")
    ap.add_argument("--seed", type=int, default=0)
    ap.add_argument("--shard", type=int, default=0)
    ap.add_argument("--nshards", type=int, default=1)
    ap.add_argument("--out")
    ap.add_argument("--replay")
    a = ap.parse_args()
    faulthandler.enable()
    core.setup_env()
    mod = importlib.import_module(f"mf.workloads.{a.prop}")
    ctx = core.Ctx(a.prop, a.tier, a.seed, a.shard, a.nshards)
    ctx.gated = set(filter(None, os.environ.get("MF_GATED", "").split(",")))
    if a.replay:
        with open(a.replay) as f:
            case = json.load(f)
        mod.replay(ctx, case)
        if ctx.res.nviol:
            for v in ctx.res.violations:
                print(f"VIOLATION property={a.prop} replay={a.replay} kind={v['kind']}")
                print(json.dumps(v, indent=1, default=str)[:4000])
            sys.exit(1)
        print(f"{a.prop} replay: no violation observed")
        sys.exit(0)
    try:
        mod.run(ctx)
    except Exception:
        ctx.res.inconclusive_because("workload crashed: " + traceback.format_exc()[-1500:])
    with open(a.out + ".tmp", "w") as f:
        json.dump(ctx.res.to_json(), f, default=str)
    os.replace(a.out + ".tmp", a.out)


if __name__ == "__main__":
    main()
