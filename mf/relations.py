"""Relations between dictionaries used by several oracles (DESIGN.md 1.3) and the domain filters of the
round-trip properties.  "Allowed differences" are decided with the independent schema reader (mf/vocab.py),
never with the printer's own lookup."""
from __future__ import annotations

from . import gen, vocab

HIDDEN = ("__position__", "__comments__")
STRINGISH = {"string", "expression", "regex", "attribute", "hexcolor"}


def is_num(x):
    return isinstance(x, (int, float)) and not isinstance(x, bool)


def roundtrip_equiv(a, b, allowed, typ=None, key=None, path="$"):
    """a ~C01 b: exact equality (types, key order, nesting) except
       (a) letter case of a string whose keyword has an enum alternative containing value.lower()
       (b) int/float -> the equal numeric string where the keyword's only alternatives are string-typed.
    Returns None or a description of the first other difference; `allowed` (a Counter) counts uses of (a)/(b)."""
    if isinstance(a, dict):
        if not isinstance(b, dict):
            return f"{path}: object became {type(b).__name__}"
        ka = [k for k in a.keys() if k not in HIDDEN]
        kb = [k for k in b.keys() if k not in HIDDEN]
        if ka != kb:
            return f"{path}: keys/order {kb} != {ka}"
        t = a.get("__type__", None)
        for k in ka:
            d = roundtrip_equiv(a[k], b[k], allowed, t if isinstance(t, str) else None, k, f"{path}.{k}")
            if d:
                return d
        return None
    if isinstance(a, (list, tuple)):
        if not isinstance(b, (list, tuple)):
            return f"{path}: list became {type(b).__name__} {b!r}"
        if len(a) != len(b):
            return f"{path}: length {len(b)} != {len(a)}: {b!r} vs {a!r}"
        for i, (x, y) in enumerate(zip(a, b)):
            d = roundtrip_equiv(x, y, allowed, typ, key, f"{path}[{i}]")
            if d:
                return d
        return None
    if type(a) is type(b) and a == b:
        return None
    p = vocab.prop(typ, key) if typ in vocab.object_types() and key else None
    if isinstance(a, str) and isinstance(b, str) and a.lower() == b.lower() and p is not None:
        if a.lower() in p.enum_members_lower():
            allowed["enum-case"] += 1
            return None
    if is_num(a) and isinstance(b, str) and p is not None and b == str(a):
        kinds = p.kinds() - {"hidden"}
        if kinds and kinds <= STRINGISH:
            allowed["number-to-numeric-string"] += 1
            return None
    return f"{path}: {a!r} ({type(a).__name__}) became {b!r} ({type(b).__name__})"


def unknown_keywords(d, path="$"):
    """Keywords not known to the schema of their enclosing object (domain filter of C01/C03/C16)."""
    out = []
    if isinstance(d, list):
        for i, x in enumerate(d):
            out += unknown_keywords(x, f"{path}[{i}]")
        return out
    if not isinstance(d, dict):
        return out
    t = d.get("__type__")
    if t in vocab.kv_keys() or t is None:
        return out
    if t not in vocab.object_types() and t != "symbolset":
        return [f"{path}: unknown block type {t!r}"]
    ps = vocab.props(t)
    for k, v in d.items():
        if k.startswith("__") and k.endswith("__"):
            continue
        if k not in ps:
            out.append(f"{path}.{k}")
            continue
        if isinstance(v, dict) and k != "config":
            out += unknown_keywords(v, f"{path}.{k}")
        elif isinstance(v, list) and v and all(isinstance(i, dict) for i in v):
            out += unknown_keywords(v, f"{path}.{k}")
    return out


def string_leaves(d, typ=None, key=None):
    """(object type, key, string) for every string leaf outside hidden keys."""
    if isinstance(d, dict):
        t = d.get("__type__")
        for k, v in d.items():
            if k in HIDDEN:
                continue
            if k == "__type__":
                continue
            yield from string_leaves(v, t if isinstance(t, str) else typ, k)
            if isinstance(k, str) and (t in vocab.kv_keys() or key == "config"):
                yield (t or "config", "<key>", k)
    elif isinstance(d, (list, tuple)):
        for v in d:
            yield from string_leaves(v, typ, key)
    elif isinstance(d, str):
        yield (typ, key, d)


def written_verbatim(t, k, s):
    """True for values the printer writes verbatim and unquoted (expressions, regexes, list expressions, bindings of keywords whose
    schema lists that alternative): the documented quote-character limitation concerns quoted values only."""
    from . import printcheck

    if printcheck.required_class(t, k, s) in ("expr", "not-expr", "regex", "list", "bind"):
        return True
    # a case-insensitive string ("abc"i) of an expression-capable keyword carries its own quotes and is written as it is
    st = s.strip()
    if len(st) >= 3 and st[-1] == "i" and st[0] in "\"'" and st[-2] == st[0] and t in vocab.object_types():
        return (t, k) in gen.ISTRING_KEYS and not unescaped(st[1:-2], st[0])
    return False


def unescaped(s, quote):
    """An occurrence of the quote character that is not directly preceded by a backslash (the string terminals read \\<quote> as an
    escaped quote whatever comes before the backslash, and the printer re-escapes exactly those)."""
    i = s.find(quote)
    while i >= 0:
        if i == 0 or s[i - 1] != "\\":
            return True
        i = s.find(quote, i + 1)
    return False


def contains_quote(d, quote):
    """Documented exclusion: a quoted value holding an UNESCAPED occurrence of the quote character chosen for output."""
    return any(unescaped(s, quote) and not written_verbatim(t, k, s) for t, k, s in string_leaves(d))


def has_backslash(d):
    """A string ending in a backslash cannot be written as a quoted Mapfile string at all (the closing quote would read as escaped);
    backslashes elsewhere are ordinary content."""
    return any(s.endswith("\\") for _, _, s in string_leaves(d))


def special_looking_source_strings(text):
    """Contents of quoted strings in a source text that look like an expression / regex / list / binding
    (documented exclusion for expression-capable keywords)."""
    from . import reader

    out = set()
    try:
        for t in reader.scan(text, keep_comments=False):
            if t.kind in ("dq", "sq"):
                c = reader.string_content(t)
                if gen.looks_special(c) or t.text.endswith("i") and len(t.text) > 2 and t.text[-2] in "\"'":
                    out.add(c)
    except reader.ScanError:
        pass
    return out


def excluded_strings(d, special):
    """String leaves of expression-capable keywords that came from a special-looking quoted string."""
    out = []
    for t, k, s in string_leaves(d):
        if s in special:
            p = vocab.prop(t, k) if t in vocab.object_types() else None
            if p is None or gen.expression_capable(p) or k == "text":
                out.append((t, k, s))
    return out
