"""Reproducers of the listed known findings, keyed by mechanism (see known_findings.txt).
Each returns None when the mechanism no longer reproduces, else a short description of what was observed."""
from __future__ import annotations


def _loads(text):
    import mappyfile

    return mappyfile.loads(text)


def mod_at_comparison_level():
    from . import exprmodel as X

    stored = _loads("CLASS EXPRESSION ([a] = [b] % 2) END")["expression"]
    got = X.erase(X.parse(stored))
    want = ("cmp", "=", ("leaf", "bind", "[a]"), ("bin", "%", ("leaf", "bind", "[b]"), ("leaf", "num", 2.0)))
    return None if got == want else f"([a] = [b] % 2) is stored as {stored}"


def querymap_style_keyword():
    try:
        d = _loads("QUERYMAP STYLE NORMAL COLOR 255 0 0 END")
        if d.get("style") == "NORMAL" and d.get("color") == [255, 0, 0]:
            return None
        return f"QUERYMAP STYLE NORMAL COLOR 255 0 0 END loads as {dict(d)}"
    except Exception as ex:
        return f"QUERYMAP STYLE NORMAL COLOR 255 0 0 END -> {type(ex).__name__}"


def first_keyword_value_is_block_word():
    try:
        d = _loads("MAP OUTPUTFORMAT IMAGEMODE FEATURE NAME 'x' END END")
        of = d["outputformats"][0]
        if of.get("imagemode") == "FEATURE" and of.get("name") == "x":
            return None
        return f"nested OUTPUTFORMAT IMAGEMODE FEATURE loads as {dict(of)}"
    except Exception as ex:
        return f"MAP OUTPUTFORMAT IMAGEMODE FEATURE NAME 'x' END END -> {type(ex).__name__}"


def unquoted_absolute_path_lexed_as_regex():
    d = _loads_noexpand("MAP INCLUDE /tmp/dir/file.map END")
    inc = d.get("include") if isinstance(d, dict) else None
    return None if inc == ["/tmp/dir/file.map"] else f"MAP INCLUDE /tmp/dir/file.map END (expand_includes=False) loads include={inc!r}"


def include_inside_kv_block_no_expand():
    import mappyfile

    d = _loads_noexpand('LAYER METADATA "a" "b"\nINCLUDE "md.inc"\nEND END')
    out = mappyfile.dumps(d)
    return None if 'INCLUDE "md.inc"' in out else "the directive is written back as the key-value pair " + repr(
        [l.strip() for l in out.split("\n") if "md.inc" in l])


def _loads_noexpand(text):
    import mappyfile

    try:
        return mappyfile.loads(text, expand_includes=False)
    except Exception as ex:
        return {"include": f"{type(ex).__name__}"}


def label_backgroundshadowsize_schema():
    from . import vocab
    import jsonschema

    p = vocab.prop("label", "backgroundshadowsize")
    node = {k: v for k, v in vocab.inlined("label")["properties"]["backgroundshadowsize"].items() if k not in ("default", "metadata")}
    bad_default = bool(list(jsonschema.Draft4Validator(node).iter_errors(p.default))) if p.has_default else False
    try:
        d = _loads("LABEL BACKGROUNDSHADOWSIZE 1 2 END")
        parsed = d.get("backgroundshadowsize")
    except Exception as ex:
        parsed = type(ex).__name__
    if not bad_default and isinstance(parsed, list) and parsed and isinstance(parsed[0], (list, tuple)):
        return None
    return f"default {p.default!r} is invalid for the keyword's own schema (a list of pairs); BACKGROUNDSHADOWSIZE 1 2 parses to {parsed!r}"


def symbol_block_alternative_unwritable():
    try:
        d = _loads("STYLE SYMBOL NAME 'x' END END")
    except Exception as ex:
        return f"STYLE SYMBOL NAME 'x' END END -> {type(ex).__name__}"
    if isinstance(d.get("symbol"), dict):
        return None
    return f"an inline SYMBOL block in STYLE is stored under {[k for k in d.keys() if k != '__type__']} (the parent schema lists symbol.json under 'symbol')"


def cr_in_string_value():
    import os
    import tempfile
    import mappyfile

    text = 'MAP\r\n  NAME "line1\r\nline2"\r\nEND\r\n'
    fd, fn = tempfile.mkstemp(suffix=".map")
    try:
        with os.fdopen(fd, "wb") as f:
            f.write(text.encode("utf-8"))
        a = mappyfile.open(fn)["name"]
        b = mappyfile.loads(text)["name"]
    finally:
        os.remove(fn)
    return None if a == b else f"open(path) gives {a!r}, loads(the same UTF-8 content) gives {b!r}"


def number_literal_overflows_to_inf():
    import mappyfile

    d = _loads("MAP ANGLE 1e999 END")
    out = mappyfile.dumps(d)
    back = _loads(out).get("angle")
    if isinstance(back, float) and back == d.get("angle"):
        return None
    return f"MAP ANGLE 1e999 END loads angle={d.get('angle')!r}, is written {out.split()[1:3]} and loads back as {back!r}"


def left_nested_expression_quadratic():
    import time
    from mappyfile.parser import Parser
    from mappyfile.transformer import MapfileToDict

    p, m = Parser(), MapfileToDict()

    def cost(n):
        s = "( [id] = 0 )"
        for i in range(1, n):
            s = f"( {s} OR ( [id] = {i} ) )"
        text = f"LAYER FILTER {s} END"
        best = None
        for _ in range(2):
            t0 = time.process_time()
            m.transform(p.parse(text))
            dt = time.process_time() - t0
            best = dt if best is None else min(best, dt)
        return best, len(text)

    a, la = cost(250)
    b, lb = cost(1000)
    ratio = b / max(a, 1e-9)
    if ratio < 2.0 * lb / la:
        return None
    return f"4.2 x the characters cost {ratio:.1f} x the CPU time ({la} chars {a * 1000:.0f} ms, {lb} chars {b * 1000:.0f} ms)"


def symbolset_root_bookkeeping():
    import mappyfile

    d = mappyfile.loads('# above\nSYMBOLSET\n  SYMBOL\n    NAME "a"\n  END\nEND', include_position=True, include_comments=True)
    pos = d.get("__position__", {})
    out = mappyfile.dumps(d)
    above = out.split("\n")[0].strip() == "# above"
    if pos.get("line") == 2 and pos.get("column") == 1 and above:
        return None
    return f"SYMBOLSET root records line={pos.get('line')!r} column={pos.get('column')!r}; the comment above it is written {'above it' if above else 'above its first SYMBOL'}"


REPRO = {
    "symbolset-root-bookkeeping": symbolset_root_bookkeeping,
    "left-nested-expression-quadratic": left_nested_expression_quadratic,
    "number-literal-overflows-to-inf": number_literal_overflows_to_inf,
    "cr-in-string-value": cr_in_string_value,
    "label-backgroundshadowsize-schema": label_backgroundshadowsize_schema,
    "symbol-block-alternative-unwritable": symbol_block_alternative_unwritable,
    "unquoted-absolute-path-lexed-as-regex": unquoted_absolute_path_lexed_as_regex,
    "include-inside-key-value-block-no-expand": include_inside_kv_block_no_expand,
    "mod-at-comparison-level": mod_at_comparison_level,
    "querymap-style-keyword": querymap_style_keyword,
    "first-keyword-value-is-block-word": first_keyword_value_is_block_word,
}
