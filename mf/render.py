"""Independent renderer: IR -> Mapfile text under a surface policy; records where every token starts.

The renderer shares nothing with mappyfile's pretty printer.  Positions are 1-based (line, column in code points);
a line break is counted at "\n" only (so CRLF is one break and "\r" sits at the end of the previous line).
"""
from __future__ import annotations


class Surface:
    def __init__(self, **kw):
        self.kwcase = kw.get("kwcase", "upper")  # upper | lower | title | random
        self.layout = kw.get("layout", "lines")  # lines | oneline | spread | random
        self.eol = kw.get("eol", "\n")
        self.indent = kw.get("indent", "  ")
        self.quote = kw.get("quote", "dq")  # dq | sq | random
        self.bare = kw.get("bare", 0.0)  # probability of writing a bare-safe string without quotes
        self.gap_comments = kw.get("gap_comments", 0.0)  # probability that a gap contains a comment
        self.ws_kinds = kw.get("ws_kinds", [" "])  # extra whitespace drawn for gaps: " ", "\t", "\f"
        self.placed_comments = kw.get("placed_comments", False)  # emit Item.comment / above comments (lines layout)
        self.numspell = kw.get("numspell", 0.0)  # probability of writing a number in another spelling (1E5, +5, .5, 007)
        self.name = kw.get("name", "")

    def describe(self):
        return {k: getattr(self, k) for k in ("kwcase", "layout", "eol", "quote", "bare", "gap_comments", "ws_kinds", "numspell")}


CANONICAL = Surface(name="canonical")

COMMENT_WORDS = ["note", "TODO: check", "layer one", "x = 1", "END", "LAYER", "'quoted'", "\"dq\"", "a # b", "été", "/* not c */",
                 "100%", "(parens)", "[bind]", "name \"x\""]


def rand_comment_text(r):
    return " ".join(r.choice(COMMENT_WORDS) for _ in range(r.randint(1, 3)))


class Emitted:
    __slots__ = ("tok", "role", "ref", "index", "line", "col", "text")

    def __init__(self, tok, role, ref, index, line, col, text):
        self.tok, self.role, self.ref, self.index, self.line, self.col, self.text = tok, role, ref, index, line, col, text


class Rendered:
    def __init__(self):
        self.parts = []
        self.line = 1
        self.col = 1
        self.tokens = []  # Emitted
        self.comments = []  # (text, line, kind) of every comment written
        self.gaps = []  # separator kinds actually used: (prev role, sep kind, next role)

    def write(self, s):
        self.parts.append(s)
        for ch in s:
            if ch == "\n":
                self.line += 1
                self.col = 1
            else:
                self.col += 1

    @property
    def text(self):
        return "".join(self.parts)


def case_kw(text, surface, r):
    c = surface.kwcase
    if c == "random":
        c = r.choice(["upper", "lower", "title", "mixed"])
    if c == "upper":
        return text.upper()
    if c == "lower":
        return text.lower()
    if c == "title":
        return text.title()
    return "".join(ch.upper() if r.random() < 0.5 else ch.lower() for ch in text)


def respell_number(text, r):
    """Another spelling of the same number: exponent notation with E or e, explicit sign, leading zeros, bare leading / trailing dot.
    The value (int stays int, float stays the same float) is unchanged."""
    import decimal
    try:
        is_int = "." not in text and "e" not in text.lower()
        neg = text.startswith("-")
        body = text.lstrip("+-")
        if is_int:
            alts = ["00" + body, body]
            if not neg:
                alts.append("+" + body)
                return r.choice(alts)
            return "-" + r.choice(alts[:2])
        d = decimal.Decimal(text)
        if d.is_zero():
            return text
        sign, digits, exp = d.as_tuple()
        ds = "".join(map(str, digits)).lstrip("0") or "0"
        e10 = exp + len(ds) - 1
        mant = ds[0] + "." + (ds[1:] or "0")
        sci = f"{mant}{r.choice(['E', 'e', 'E'])}{r.choice(['', '+']) if e10 >= 0 else '-'}{abs(e10)}"
        alts = [sci, sci.replace(".0E", ".E").replace(".0e", ".e")]
        if body.startswith("0.") and len(body) > 2:
            alts.append(body[1:])  # .5
        if body.endswith(".0"):
            alts.append(body[:-1])  # 5.
        out = r.choice(alts)
        if float(("-" if neg else "") + out) != float(text):
            return text
        return ("-" if neg else r.choice(["", "", "+"])) + out
    except Exception:
        return text


def tok_text(tok, surface, r):
    if tok.kind == "kw":
        return case_kw(tok.text, surface, r)
    if tok.kind == "num" and surface.numspell and r is not None and r.random() < surface.numspell:
        return respell_number(tok.text, r)
    if tok.kind in ("word", "num", "raw"):
        return tok.text
    if tok.kind == "str":
        q = surface.quote
        if "bare" in tok.flex and surface.bare and r.random() < surface.bare:
            return tok.text
        opts = [x for x in ("dq", "sq") if x in tok.flex]
        if not opts:
            raise ValueError(f"string {tok.text!r} cannot be written")
        if q == "random":
            q = r.choice(opts)
        if q not in opts:
            q = opts[0]
        ch = '"' if q == "dq" else "'"
        return ch + tok.text + ch
    raise ValueError(tok.kind)


def flatten(nodes):
    """IR -> linear list of (tok, role, ref, index); roles: open, end, key, val, kvkey, kvval, blockend."""
    out = []

    def node_(n, depth):
        out.append((n.kw, "open", n, depth))
        for it in n.items:
            item_(it, depth + 1)
        out.append((n.endtok, "end", n, depth))

    def item_(it, depth):
        if it.kind == "block":
            node_(it.node, depth)
            return
        out.append((it.kw, "key", it, depth))
        if it.kind in ("attr", "repeat", "config"):
            for i, t in enumerate(it.toks):
                out.append((t, "val", it, i))
        elif it.kind == "projection":
            for i, t in enumerate(it.toks):
                out.append((t, "pval", it, i))
            out.append((it.endtok, "blockend", it, depth))
        elif it.kind == "kv":
            for i, (k, v) in enumerate(it.pairs):
                out.append((k, "kvkey", it, i))
                out.append((v, "kvval", it, i))
            out.append((it.endtok, "blockend", it, depth))
        elif it.kind == "pairs":
            for i, ((a, _), (b, _2)) in enumerate(it.pairs):
                out.append((a, "pt0", it, i))
                out.append((b, "pt1", it, i))
            out.append((it.endtok, "blockend", it, depth))
        else:
            raise ValueError(it.kind)

    for n in nodes:
        node_(n, 0)
    return out


LINE_START_ROLES = ("open", "end", "key", "blockend", "kvkey", "pt0", "pval")


def render(nodes, surface=CANONICAL, r=None):
    """Returns a Rendered: .text, .tokens (with positions), .comments."""
    import random as _random

    r = r or _random.Random(0)
    out = Rendered()
    flat = flatten(nodes)
    depth = 0
    prev_role = None
    layout = surface.layout
    for idx, (tok, role, ref, extra) in enumerate(flat):
        # ---- separator before this token
        if role == "end" or role == "blockend":
            depth = max(depth - 1, 0)
        if idx > 0:
            lay = layout if layout != "random" else r.choice(["lines", "oneline", "spread"])
            newline = (lay == "lines" and role in LINE_START_ROLES) or (lay == "spread") or \
                      (lay == "oneline" and r.random() < 0.05)
            sep = gap(surface, r, newline, depth, out, prev_role, role)
            # placed comments (C14): trailing comment of the previous simple keyword line, comment lines above an opener
            out.write(sep)
        above = None
        if surface.placed_comments:
            if role == "open" and ref.above:
                above = ref.above
            elif role == "key" and ref.kind in ("kv",) and ref.above:
                above = ref.above
        if above:
            ind = surface.indent * depth
            for c in above:
                out.comments.append((c, out.line, "above"))
                out.write(c + surface.eol + ind)
        text = tok_text(tok, surface, r)
        tok.pos = (out.line, out.col)
        out.tokens.append(Emitted(tok, role, ref, extra, out.line, out.col, text))
        out.write(text)
        if surface.placed_comments and role == "val" and ref.comment and extra == len(ref.toks) - 1:
            out.comments.append((ref.comment, out.line, "trailing"))
            # usually a blank before the comment; now and then a tab, several blanks, or nothing at all (FONTSET fonts.txt#fonts)
            # (only a # comment is glued: "word/* ... */" is not one word and one comment for every reader)
            gaps = [" ", " ", " ", "\t", "   "] + ([""] if ref.comment.startswith("#") else [])
            if ref.comment.startswith("#") and text and text[0] not in "\"'" and ("." in text or "/" in text):
                gaps = ["", "", " "]  # an unquoted file name or number with a comment stuck to it
            out.write((r.choice(gaps) if r is not None else " ") + ref.comment)
        if role == "open" or (role == "key" and ref.kind in ("kv", "projection", "pairs")):
            depth += 1
        prev_role = role
    out.write(surface.eol if surface.layout == "lines" else "")
    return out


def gap(surface, r, newline, depth, out, prev_role, role):
    """A non-empty separator: whitespace, optionally with comments, optionally ending in a line break + indent."""
    parts = []
    kinds = []
    if surface.gap_comments and r.random() < surface.gap_comments:
        if r.random() < 0.5:
            c = "# " + rand_comment_text(r)
            parts.append(r.choice(["", " ", "\t"]) + c + surface.eol)
            kinds.append("#")
            out.comments.append((c, None, "gap"))
            newline_done = True
        else:
            body = rand_comment_text(r).replace("*/", "* /")
            if r.random() < 0.3:
                body = body + surface.eol + " more " + rand_comment_text(r).replace("*/", "* /")
            c = "/* " + body + " */"
            parts.append(" " + c + r.choice([" ", surface.eol, "\t"]))
            kinds.append("/**/")
            out.comments.append((c, None, "gap"))
    if newline:
        extra = "".join(r.choice(surface.ws_kinds) for _ in range(r.randint(0, 2))) if len(surface.ws_kinds) > 1 else ""
        parts.append(extra + surface.eol + surface.indent * depth)
        kinds.append("CRLF" if surface.eol == "\r\n" else "LF")
        if r.random() < 0.1 and len(surface.ws_kinds) > 1:
            parts.append(surface.eol)
    if not parts or (len(surface.ws_kinds) > 1 and r.random() < 0.5):
        w = "".join(r.choice(surface.ws_kinds) for _ in range(r.randint(1, 3) if len(surface.ws_kinds) > 1 else 1))
        parts.append(w)
        kinds.extend(sorted({"sp" if ch == " " else "tab" if ch == "\t" else "ff" for ch in w}))
    s = "".join(parts)
    if not s:
        s = " "
    out.gaps.append((prev_role, "+".join(kinds), role))
    return s


def surfaces(r, n):
    """n random surface policies (for C05 / C08 / C13)."""
    out = []
    for _ in range(n):
        out.append(Surface(
            kwcase=r.choice(["upper", "lower", "title", "random", "random"]),
            layout=r.choice(["lines", "oneline", "spread", "random"]),
            eol=r.choice(["\n", "\n", "\r\n"]),
            indent=r.choice(["", "  ", "\t", "    "]),
            quote=r.choice(["dq", "sq", "random"]),
            bare=r.choice([0.0, 0.5, 1.0]),
            gap_comments=r.choice([0.0, 0.0, 0.1, 0.3]),
            ws_kinds=r.choice([[" "], [" ", "\t"], [" ", "\t", "\f"]]),
            numspell=r.choice([0.0, 0.0, 0.3, 1.0]),
        ))
    return out
