"""IR -> the dictionary promised by the documented text->dict contract (docs/transformer.rst + property C02),
and the comparison relations used by several oracles.
"""
from __future__ import annotations

from collections import OrderedDict

from . import exprmodel as X
from . import vocab


class ExprExpect:
    """Expected value of an expression-valued keyword: compared through the expression-tree oracle (C10)."""

    def __init__(self, tree):
        self.tree = tree

    def matches(self, stored):
        if not isinstance(stored, str):
            return False
        try:
            return X.erase(X.parse(stored)) == X.erase(self.tree)
        except X.ExprSyntaxError:
            return False

    def __repr__(self):
        return f"Expr({self.tree})"


class ListExpect:
    """Expected value of a list expression {a,b,...}: the same elements in the same order, each as written; blanks next to the commas
    and braces are layout."""

    def __init__(self, els):
        self.tree = list(els)

    def matches(self, stored):
        if not isinstance(stored, str) or len(stored) < 2 or stored[0] != "{" or stored[-1] != "}":
            return False
        return [e.strip(" ") for e in stored[1:-1].split(",")] == self.tree

    def __repr__(self):
        return f"List({self.tree})"


def expect_item_value(it):
    if it.shape == "expression":
        return ExprExpect(it.expr)
    if it.shape == "list" and it.expr is not None:
        return ListExpect(it.expr)
    return it.value


def expect_node(n):
    d = OrderedDict()
    d["__type__"] = n.type
    dups = set()
    slots = vocab.child_slots(n.type)
    for it in n.items:
        k = it.key
        if it.kind == "block":
            mode = slots[k][1]
            if mode == "list":
                d.setdefault(k, []).append(expect_node(it.node))
            else:
                if k in d:
                    dups.add(k)
                d[k] = expect_node(it.node)
        elif it.kind == "attr":
            if k in d:
                dups.add(k)
            d[k] = expect_item_value(it)
        elif it.kind == "repeat":
            d.setdefault(k, []).append(it.value)
        elif it.kind == "config":
            cfg = d.setdefault("config", OrderedDict())
            cfg[it.toks[0].text.lower()] = it.toks[1].text
        elif it.kind == "kv":
            dd = OrderedDict()
            for kt, vt in it.pairs:
                dd[kt.text.lower()] = vt.text
            dd["__type__"] = k
            if k in d:
                dups.add(k)
            d[k] = dd
        elif it.kind == "projection":
            if k in d:
                dups.add(k)
            d[k] = list(it.value)
        elif it.kind == "pairs":
            pts = [(a[1], b[1]) for a, b in it.pairs]
            if k == "points":
                if k not in d:
                    d[k] = pts
                    d["__points_n__"] = 1
                else:
                    if d["__points_n__"] == 1:
                        d[k] = [d[k]]
                    d[k].append(pts)
                    d["__points_n__"] += 1
            else:
                if k in d:
                    dups.add(k)
                d[k] = pts
        else:
            raise ValueError(it.kind)
    d.pop("__points_n__", None)
    if dups:
        d["__dups__"] = dups
    return d


def expect_doc(nodes):
    ds = [expect_node(n) for n in nodes]
    return ds[0] if len(ds) == 1 else ds


# ------------------------------------------------------------------------------------------------
# comparison: expected (from the IR) vs observed (from the real loads)

HIDDEN = ("__position__", "__comments__")


def is_num(x):
    return isinstance(x, (int, float)) and not isinstance(x, bool)


def compare(exp, got, path="$"):
    """None when `got` is exactly what the contract promises for `exp`; otherwise a description of the first difference."""
    if isinstance(exp, (ExprExpect, ListExpect)):
        return None if exp.matches(got) else f"{path}: stored expression {got!r} does not denote the intended tree {exp.tree!r}"
    if isinstance(exp, dict):
        if not isinstance(got, dict):
            return f"{path}: expected an object, got {type(got).__name__} {short(got)}"
        dups = exp.get("__dups__", set())
        ekeys = [k for k in exp.keys() if k not in ("__dups__", "__type__")]
        gkeys = [k for k in got.keys() if k not in HIDDEN and k != "__type__"]
        if exp.get("__type__") != got.get("__type__"):
            return f"{path}: __type__ {got.get('__type__')!r} != {exp.get('__type__')!r}"
        if any(not isinstance(k, str) or k != k.lower() for k in gkeys):
            return f"{path}: keys not lower-case strings: {gkeys}"
        if set(ekeys) != set(gkeys) or len(gkeys) != len(set(gkeys)):
            missing = [k for k in ekeys if k not in gkeys]
            extra = [k for k in gkeys if k not in ekeys]
            return f"{path}: keys differ: dropped {missing}, invented {extra}"
        eo = [k for k in ekeys if k not in dups]
        go = [k for k in gkeys if k not in dups]
        if eo != go:
            return f"{path}: key order {go} != source order {eo}"
        for k in ekeys:
            d = compare(exp[k], got[k], f"{path}.{k}")
            if d:
                return d
        return None
    if isinstance(exp, (list, tuple)):
        if not isinstance(got, (list, tuple)):
            return f"{path}: expected a list, got {type(got).__name__} {short(got)}"
        if len(exp) != len(got):
            return f"{path}: length {len(got)} != {len(exp)}: {short(got)} vs {short(exp)}"
        for i, (a, b) in enumerate(zip(exp, got)):
            d = compare(a, b, f"{path}[{i}]")
            if d:
                return d
        return None
    if type(exp) is not type(got) or exp != got:
        return f"{path}: {type(got).__name__} {short(got)} != {type(exp).__name__} {short(exp)}"
    return None


def short(x, n=120):
    s = repr(x)
    return s if len(s) <= n else s[: n - 3] + "..."


def wellformed(d, path="$", position=False, comments=False):
    """Per-call contract on transform results: lower-case str keys, __type__ on every block, scalar leaves only
    bool/int/float/str, no bookkeeping keys unless asked for."""
    if isinstance(d, dict):
        if "__tokens__" in d:
            return f"{path}: __tokens__ survived"
        if "__position__" in d and not position:
            return f"{path}: __position__ present although include_position is off"
        if "__comments__" in d and not comments:
            return f"{path}: __comments__ present although include_comments is off"
        for k, v in d.items():
            if not isinstance(k, str) or k != k.lower():
                return f"{path}: key {k!r} is not a lower-case string"
            if k in HIDDEN:
                continue
            r = wellformed(v, f"{path}.{k}", position, comments)
            if r:
                return r
        return None
    if isinstance(d, (list, tuple)):
        for i, v in enumerate(d):
            r = wellformed(v, f"{path}[{i}]", position, comments)
            if r:
                return r
        return None
    if isinstance(d, (bool, int, float, str)):
        return None
    return f"{path}: leaf of type {type(d).__name__}"


# ------------------------------------------------------------------------------------------------
# building dictionaries directly from the IR (no parser involved) - used by the printer checks


def item_value(it, mk=dict):
    """Python value a dictionary holds for a non-block item (expressions as their source text)."""
    if it.kind == "attr":
        if it.shape == "expression":
            return it.toks[0].text
        return it.value
    if it.kind == "repeat":
        return it.value
    if it.kind == "kv":
        d = mk()
        for kt, vt in it.pairs:
            d[kt.text.lower()] = vt.text
        d["__type__"] = it.key
        return d
    if it.kind == "config":
        return {it.toks[0].text.lower(): it.toks[1].text}
    if it.kind == "projection":
        return list(it.value)
    if it.kind == "pairs":
        return [(a[1], b[1]) for a, b in it.pairs]
    raise ValueError(it.kind)


def build_node(n, mk=dict):
    d = mk()
    d["__type__"] = n.type
    slots = vocab.child_slots(n.type)
    npoints = 0
    for it in n.items:
        k = it.key
        if it.kind == "block":
            if slots[k][1] == "list":
                if k not in d:
                    d[k] = []
                d[k].append(build_node(it.node, mk))
            else:
                d[k] = build_node(it.node, mk)
        elif it.kind == "repeat":
            if k not in d:
                d[k] = []
            d[k].append(item_value(it, mk))
        elif it.kind == "config":
            if "config" not in d:
                d["config"] = mk()
            d["config"].update(item_value(it, mk))
        elif it.kind == "pairs" and k == "points":
            pts = item_value(it, mk)
            if npoints == 0:
                d[k] = pts
            elif npoints == 1:
                d[k] = [d[k], pts]
            else:
                d[k].append(pts)
            npoints += 1
        else:
            d[k] = item_value(it, mk)
    return d


def build_doc(nodes, mk=dict):
    ds = [build_node(n, mk) for n in nodes]
    return ds[0] if len(ds) == 1 else ds
