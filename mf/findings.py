"""known_findings.txt reader (the file is committed and never written at run time).

  known: property=<id> key=<mechanism-key> <what fails>
  fixed: property=<id> <commit> <what failed>
"""
from __future__ import annotations

import os
import re

from . import core

PATH = os.path.join(core.VERIF, "known_findings.txt")


def load(prop):
    out = {}
    if not os.path.exists(PATH):
        return out
    for line in open(PATH):
        line = line.strip()
        if not line or line.startswith("#"):
            continue
        m = re.match(r"known:\s+property=(\S+)\s+key=(\S+)\s+(.*)$", line)
        if m and m.group(1) == prop:
            out[m.group(2)] = {"status": "known", "text": m.group(3)}
    return out
