"""known_findings.txt reader (the file is committed and never written at run time).

  known: property=<id>[,<id>...] key=<mechanism-key> <what fails>
  fixed: property=<id> <commit> <what failed>

A known finding is keyed by mechanism.  Its key is (i) a feature gate for the shared generators - the feature that
triggers the mechanism is not generated in the judged workloads of ANY check, so whatever a judged workload reports is
by construction not a listed finding - and (ii) the name of a reproducer in mf/known.py that every run of the checks of
the listed properties executes (KNOWN-FINDING line while it still fails).
"""
from __future__ import annotations

import os
import re

from . import core

PATH = os.path.join(core.VERIF, "known_findings.txt")


def load_all():
    out = {}
    if not os.path.exists(PATH):
        return out
    for line in open(PATH):
        line = line.strip()
        if not line or line.startswith("#"):
            continue
        m = re.match(r"known:\s+property=(\S+)\s+key=(\S+)\s+(.*)$", line)
        if m:
            out[m.group(2)] = {"status": "known", "props": m.group(1).split(","), "text": m.group(3)}
    return out


def load(prop):
    return {k: e for k, e in load_all().items() if prop in e["props"]}


def all_gates():
    return sorted(load_all().keys())
