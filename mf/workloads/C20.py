"""C20 - file, stream and command-line front ends agree with the string API.

Deciding monitors: relations over API boundary events (open / load / loads, save / dump / dumps, save -> open with
Unicode values) and REAL SUBPROCESS observations of /venv/bin/mappyfile (exit status, stdout lines, output file bytes)
compared with what the API says for the same inputs.
"""
from __future__ import annotations

import hashlib
import io
import json
import os
import shutil
import subprocess
import sys
import tempfile

from .. import core, gen, render
from ..engine import Engine

RULE = ("generated documents whose string values are drawn from all Unicode planes are written to temporary files and cycled through "
        "open/load/loads and save/dump/dumps; the CLI is run as a real subprocess: `format` with every option vs save(open(IN)), "
        "`validate` over sets of valid, invalid (1, 2, 254, 255, 256, 257, 300 problems) and unparseable files vs the API's messages, "
        "`schema --version` vs the API schema; distinct = distinct (front end, input fingerprint, options)")
EVAL_KEY = "evaluations"
DISTINCT_KEY = "cases"
NSHARDS = {"quick": 8, "thorough": 16}
TIMEOUT = {"quick": 1200, "thorough": 7200}
FLOORS = {"quick": {"api_cycles": 250, "cli_runs": 36, "cli:format": 14, "cli:validate": 14, "cli:schema": 4, "distinct:codepoint-classes": 5, "large_files": 9},
          "thorough": {"api_cycles": 9000, "cli_runs": 700, "cli:format": 300, "cli:validate": 300, "cli:schema": 40,
                       "distinct:codepoint-classes": 5, "large_files": 12}}
ASSUMPTIONS = ["the expected CLI exit status and message lines are computed from the public API on the same files",
               "exit status: 0 iff no problem; equal to the number of problems when <= 255; any non-zero status above that"]
DOMAIN = ["string values without surrogates, the quote character, backslash or CR", "CLI arguments are ASCII; file names without glob characters"]

CLI = "/venv/bin/mappyfile"


def h(*a):
    return hashlib.sha1(repr(a).encode("utf-8", "surrogatepass")).hexdigest()[:12]


PLANES = {"latin": (0xA1, 0x24F), "greek-cyrillic": (0x370, 0x4FF), "combining": (0x300, 0x36F), "rtl": (0x5D0, 0x6FF),
          "cjk": (0x4E00, 0x9FFF), "symbols": (0x2000, 0x2BFF), "private-bmp": (0xE000, 0xF8FF), "astral-emoji": (0x1F300, 0x1FAFF),
          "astral-math": (0x1D400, 0x1D7FF), "astral-cjk": (0x20000, 0x2A6DF), "high-plane": (0xE0100, 0xE01EF)}
# characters that str.splitlines() / some decoders treat as line boundaries although they are ordinary characters of a value
SEPARATORS = [0x0B, 0x0C, 0x1C, 0x1D, 0x1E, 0x85, 0x2028, 0x2029, 0xA0, 0xFEFF, 0x200B, 0x1680]


def rand_unicode(r, res):
    n = r.randint(1, 12)
    out = []
    for _ in range(n):
        k = r.choice(list(PLANES) + ["ascii", "ascii", "separator-like"])
        if k == "separator-like":
            c = chr(r.choice(SEPARATORS))
            res.seen("codepoint-classes", k)
        elif k == "ascii":
            c = r.choice("abc XYZ 09 .,;:-_/=()[]{}#%&*+<>?@^|~")
        else:
            lo, hi = PLANES[k]
            c = chr(r.randint(lo, hi))
            res.seen("codepoint-classes", k)
        out.append(c)
    s = "".join(out)
    return s


def unicodify(nodes, r, res):
    """Replace free-string values of the IR with strings drawn from all Unicode planes."""
    for root in nodes:
        for nd in root.walk():
            for it in nd.items:
                if it.kind == "attr" and it.shape == "string" and it.toks[0].kind == "str":
                    p = __import__("mf.vocab", fromlist=["x"]).prop(nd.type, it.key)
                    maxlen = next((a.info.get("maxlen") for a in p.alts if a.kind == "string"), None)
                    if maxlen:
                        continue
                    for _ in range(10):
                        s = rand_unicode(r, res)
                        if gen.ok_string(s, gen.expression_capable(p)) and '"' not in s and "'" not in s:
                            it.toks[0] = gen.Tok("str", s, frozenset({"dq", "sq"}))
                            it.value = s
                            break
                elif it.kind == "kv":
                    new = []
                    for kt, vt in it.pairs:
                        s = rand_unicode(r, res)
                        if gen.ok_string(s) and '"' not in s and "'" not in s:
                            vt = gen.Tok("str", s, frozenset({"dq", "sq"}))
                        new.append((kt, vt))
                    it.pairs = new


def run(ctx):
    base = tempfile.mkdtemp(prefix="mf-c20-")
    try:
        _run(ctx, base)
    finally:
        shutil.rmtree(base, ignore_errors=True)


LEGACY_LOCALE = {"PYTHONUTF8": "0", "LC_ALL": "C", "LANG": "C", "PYTHONCOERCECLOCALE": "0"}  # default text encoding: ASCII


def cli(args, cwd, legacy_locale=False):
    env = dict(os.environ)
    env["PYTHONPATH"] = core.REPO
    env.pop("PYTHONHASHSEED", None)
    if legacy_locale:
        env.update(LEGACY_LOCALE)
    p = subprocess.run([core.PY, "-c", "import sys; sys.path.insert(0, %r); from mappyfile.cli import main; main()" % core.REPO] + args,
                       cwd=cwd, env=env, capture_output=True, text=True, timeout=300, encoding="utf-8", errors="replace")
    return p


API_CHILD = """
import sys, io
sys.path.insert(0, %r)
import mappyfile
inp, o_save, o_dump, o_dumps = sys.argv[1:5]
d = mappyfile.open(inp)
mappyfile.save(d, o_save)
with io.open(o_dump, "w", encoding="utf-8", newline="") as fp:
    mappyfile.dump(d, fp)
with io.open(o_dumps, "w", encoding="utf-8", newline="") as fp:
    fp.write(mappyfile.dumps(d))
"""


def api_child(inp, wd, tag):
    """open / save / dump / dumps of one file in a child process whose DEFAULT text encoding is not UTF-8 (a Windows code page, a
    legacy locale): the file front ends name their encoding themselves."""
    env = dict(os.environ)
    env.pop("PYTHONHASHSEED", None)
    env.update(LEGACY_LOCALE)
    outs = [os.path.join(wd, f"{tag}_{k}.map") for k in ("save", "dump", "dumps")]
    p = subprocess.run([core.PY, "-c", API_CHILD % core.REPO, inp] + outs, cwd=wd, env=env, capture_output=True, text=True, timeout=300,
                       encoding="utf-8", errors="replace")
    return p, outs


def _run(ctx, base):
    import mappyfile
    from mappyfile.validator import Validator

    res = ctx.res
    r = ctx.rng("c20")
    eng = Engine(public_every=0)
    # ------------------------------------------------------------------ (a) API cycles
    n = ctx.n(320, 11000)
    for j in range(n):
        nodes = gen.gen_document(r, gen.GenOpts(gated=ctx.gated, p_key=r.choice([0.3, 0.5]), dup=0.0))
        unicodify(nodes, r, res)
        text = render.render(nodes, render.Surface(layout="lines", eol=r.choice(["\n", "\r\n"]))).text
        fn = os.path.join(base, f"a{ctx.shard}_{j % 7}.map")
        with open(fn, "w", encoding="utf-8", newline="") as f:
            f.write(text)
        case = {"part": "api", "text": text[:4000]}
        res.count("api_cycles")
        res.seen("cases", h("api", text))
        try:
            d_s = eng.loads(text)
            # the public front ends are called the way users call them (defaults: include expansion on)
            d_o = mappyfile.open(fn) if j % 4 == 0 else None
            with open(fn, encoding="utf-8", newline="") as fp:
                d_l = mappyfile.load(fp) if j % 4 == 1 else None
            d_p = mappyfile.loads(text) if j % 4 == 2 else None
        except Exception as ex:
            res.violation("front-end-raises", case, f"{type(ex).__name__}: {str(ex)[:200]}", None)
            continue
        # ground truth: the generator's intended structure (all front ends could be wrong in the same way)
        from .. import expect
        want = expect.expect_doc(nodes)
        for name, dd in (("loads(reused objects)", d_s), ("open", d_o), ("load", d_l), ("loads", d_p)):
            if dd is not None:
                diff = expect.compare(want, dd)
                if diff:
                    res.violation("front-end-result-differs-from-intended-content", dict(case, front_end=name), diff, None)
        ps = core.plain(d_s)
        for name, dd in (("open", d_o), ("load", d_l)):
            if dd is not None:
                res.count("api:" + name)
                if core.plain(dd) != ps:
                    res.violation(f"{name}-differs-from-loads", case, core.first_diff(ps, core.plain(dd)), None)
        # save / dump / dumps produce the same characters
        from .. import relations
        quotes = [q for q in ('"', "'") if not relations.contains_quote(d_s, q)]
        if not quotes or relations.has_backslash(d_s):
            res.count("excluded:quote-or-backslash-in-string")
            continue
        opts = dict(indent=r.choice([0, 2, 4]), quote=r.choice(quotes), newlinechar=r.choice(["\n", "\r\n"]))
        s1 = eng.dumps(d_s, **opts)
        buf = io.StringIO()
        mappyfile.dump(d_s, buf, **opts)
        out_fn = os.path.join(base, f"o{ctx.shard}.map")
        ret = mappyfile.save(d_s, out_fn, **opts)
        try:
            with open(out_fn, encoding="utf-8", newline="") as f:
                s3 = f.read()
        except UnicodeDecodeError as ex:
            res.violation("saved-file-is-not-utf-8", dict(case, options=opts), str(ex)[:200], "the characters dumps returns, UTF-8 encoded")
            continue
        if not (s1 == buf.getvalue() == s3):
            res.violation("save-dump-dumps-differ", dict(case, options=opts), [h(s1), h(buf.getvalue()), h(s3)], None)
        if ret != out_fn:
            res.violation("save-does-not-return-its-path", case, ret, out_fn)
        # Unicode survives save -> open
        try:
            d_back = mappyfile.open(out_fn) if j % 3 == 0 else eng.loads(s3)
            d_ref = eng.loads(s1)
            if core.plain(d_back) != core.plain(d_ref):
                res.violation("save-open-cycle-changes-content", dict(case, options=opts), core.first_diff(core.plain(d_ref), core.plain(d_back)), None)
            # the string leaves themselves are unchanged w.r.t. the first load
            a = sorted(s for _, _, s in __import__("mf.relations", fromlist=["x"]).string_leaves(d_s) if not s.isascii())
            b = sorted(s for _, _, s in __import__("mf.relations", fromlist=["x"]).string_leaves(d_back) if not s.isascii())
            if a != b:
                res.violation("unicode-value-changed-by-save-open", dict(case, options=opts), [x for x in b if x not in a][:3],
                              [x for x in a if x not in b][:3])
            res.count("unicode_strings_cycled", len(a))
        except Exception as ex:
            res.violation("saved-file-not-loadable", dict(case, options=opts), f"{type(ex).__name__}: {str(ex)[:200]}", None)
        if len(res.samples) < 1 and len(text) < 500:
            res.sample({"part": "api", "text": text})
    # ------------------------------------------------------------------ (a2) large files
    # files of 70 kB ... 9 MB whose text is mostly multi-byte characters (so that every internal block boundary of a reader, whatever
    # its block size, falls inside a character for at least two of three paddings): the file front ends still agree with loads
    if ctx.shard == 0:
        sizes = [23_000, 370_000, 1_420_000] if ctx.quick else [23_000, 370_000, 1_420_000, 2_900_000]
        for nchars in sizes:
            for pad in (0, 1, 2):
                text = 'MAP\n  NAME "' + "x" * pad + "\u65e5" * nchars + '"\n  WEB\n    METADATA\n      "wms_title" "' + "\U0001d4b3\u00e9" * 1000 + '"\n    END\n  END\nEND\n'
                fn = os.path.join(base, f"large_{nchars}_{pad}.map")
                with open(fn, "w", encoding="utf-8", newline="") as f:
                    f.write(text)
                case = {"part": "large-file", "bytes": os.path.getsize(fn), "padding": pad, "text": text[:60] + "..."}
                res.count("large_files")
                res.maximum("largest_file_bytes", os.path.getsize(fn))
                try:
                    want = core.fp(mappyfile.loads(text))
                    got_open = core.fp(mappyfile.open(fn))
                    with open(fn, encoding="utf-8", newline="") as fp:
                        got_load = core.fp(mappyfile.load(fp))
                    out_fn = os.path.join(base, "large_out.map")
                    mappyfile.save(mappyfile.loads(text), out_fn)
                    got_cycle = core.fp(mappyfile.open(out_fn))
                    os.remove(out_fn)
                except Exception as ex:
                    res.violation("front-end-raises", case, f"{type(ex).__name__}: {str(ex)[:200]}", None)
                    continue
                finally:
                    os.remove(fn)
                if not (want == got_open == got_load == got_cycle):
                    res.violation("front-ends-disagree-on-a-large-file", case, {"open": got_open == want, "load": got_load == want, "save-open": got_cycle == want}, None)
    # ------------------------------------------------------------------ (b-d) CLI as a real subprocess
    ncli = ctx.n(40, 800)
    wd = os.path.join(base, f"cli{ctx.shard}")
    os.makedirs(wd, exist_ok=True)
    for j in range(ncli):
        kind = ("format", "validate", "format", "validate", "schema", "format", "validate", "validate", "format", "schema")[(j + ctx.shard) % 10]
        if kind == "schema" and r.random() < 0.5 and res.counters["cli:schema"] >= 1 and ctx.quick:
            kind = "validate"
        res.count("cli_runs")
        res.count("cli:" + kind)
        if kind == "format":
            nodes = gen.gen_document(r, gen.GenOpts(gated=ctx.gated, p_key=0.4, dup=0.0), root=r.choice(["map", "layer", "class"]))
            unicodify(nodes, r, res)
            gen.place_comments(nodes, r, 0.3, 0.3)
            text = render.render(nodes, render.Surface(layout="lines", placed_comments=True)).text
            inp = os.path.join(wd, f"in{j}.map")
            with open(inp, "w", encoding="utf-8", newline="") as f:
                f.write(text)
            o = dict(indent=r.choice([0, 1, 2, 4, 8]), spacer=r.choice([" ", "\t"]), quote=r.choice(['"', "'"]),
                     newlinechar=r.choice(["\n", "\r\n"]))
            comments = r.random() < 0.5
            expand = r.random() < 0.7
            args = ["format", inp, os.path.join(wd, f"cli_out{j}.map"), "--indent", str(o["indent"]),
                    "--spacer", {" ": " ", "\t": "\\t"}[o["spacer"]], "--quote", o["quote"],
                    "--newlinechar", {"\n": "\\n", "\r\n": "\\r\\n"}[o["newlinechar"]]]
            args += ["--comments" if comments else "--no-comments", "--expand" if expand else "--no-expand"]
            for k2 in ("indent", "spacer", "quote", "newlinechar"):
                res.seen("cli-options", f"{k2}={o[k2]!r}")
            res.seen("cli-options", f"comments={comments}")
            res.seen("cli-options", f"expand={expand}")
            case = {"part": "cli-format", "args": args[3:], "text": text[:3000]}
            res.seen("cases", h("format", text, args[3:]))
            try:
                d = mappyfile.open(inp, expand_includes=expand, include_comments=comments, include_position=True)
                api_out = os.path.join(wd, f"api_out{j}.map")
                mappyfile.save(d, api_out, **o)
                want = open(api_out, "rb").read()
            except Exception as ex:
                res.count("format_api_failed:" + type(ex).__name__)
                want = None
            # the output file may exist already: the same text with the other line ends (an earlier run with another --newlinechar),
            # the wanted text itself, something else, or the input file itself (formatting in place)
            pre = r.choice(["absent", "other-line-ends", "other-line-ends", "identical", "garbage", "in-place"])
            if want is not None and pre != "absent":
                res.count("format_into_existing_output")
                res.seen("existing-output-kinds", pre)
                if pre == "in-place":
                    args[2] = inp
                else:
                    other = want.replace(b"\r\n", b"\n") if o["newlinechar"] == "\r\n" else want.replace(b"\n", b"\r\n")
                    with open(args[2], "wb") as f:
                        f.write({"other-line-ends": other, "identical": want, "garbage": b"MAP\n  NAME \"old\"\nEND\n"}[pre])
                case["existing_output"] = pre
            legacy = j % 2 == 0
            # (the API child reads a copy made BEFORE the CLI runs: with "in-place" the CLI rewrites the input file itself, and a
            # rewritten file need not load - a value holding the chosen output quote is outside what dumps guarantees)
            inp_copy = os.path.join(wd, f"in{j}_copy.map")
            if legacy:
                with open(inp, "rb") as fsrc, open(inp_copy, "wb") as fdst:
                    fdst.write(fsrc.read())
            p = cli(args, wd, legacy_locale=legacy)
            if legacy:
                res.count("cli_runs_with_non_utf8_default_encoding")
                case["default_encoding"] = "ascii (PYTHONUTF8=0, LC_ALL=C)"
                inp = inp_copy
                pc, outs = api_child(inp, wd, f"child{j}")
                res.count("api_child_runs_with_non_utf8_default_encoding")
                if pc.returncode != 0:
                    res.violation("api-fails-when-default-encoding-is-not-utf8", case, pc.stderr[-400:], "save / dump / dumps succeed")
                else:
                    blobs = [open(o, "rb").read() for o in outs]
                    ref = mappyfile.dumps(mappyfile.open(inp)).encode("utf-8")
                    for nm, b in zip(("save", "dump", "dumps"), blobs):
                        if b != ref:
                            res.violation("file-output-depends-on-default-encoding", dict(case, via=nm), b[:200].decode("utf-8", "replace"),
                                          ref[:200].decode("utf-8", "replace"))
                            break
            if want is None:
                continue
            if p.returncode != 0:
                res.violation("cli-format-nonzero-exit", case, {"rc": p.returncode, "stderr": p.stderr[-500:]}, 0)
                continue
            got = open(args[2], "rb").read()
            if got != want:
                res.violation("cli-format-differs-from-save-open", case, {"cli": got[:300].decode("utf-8", "replace"),
                                                                           "api": want[:300].decode("utf-8", "replace")}, None)
            res.count("exit:0")
        elif kind == "validate":
            version = r.choice([None, 7.6, 8.0, 8.2])
            files = []
            targets = r.choice([[0], [0, 0], [1], [2], [0, 1], [254], [255], [256], [257], [300], [1, "bad"], ["bad"], [0, "bad"], [3, 0, "bad", 2],
                                ["bad-latin1", 2], [1, "bad-selfinclude", 0], ["bad-latin1", "bad", 0, 3], [0, "bad-selfinclude"],
                                ["same-message-twice"], [1, "same-message-twice", 0], ["same-message-twice", "same-message-twice"],
                                ["gen-valid"], ["gen-valid", "gen-valid", 1], ["gen-valid", "gen-valid", "gen-valid"], [0, "gen-valid"]])
            forced = [[254], [255], [256], [257], ["bad", "gen-valid"], ["bad-latin1", 2, "gen-valid"], [300], ["same-message-twice", 1, "gen-valid"]]
            if res.counters["cli:validate"] == 1 and ctx.shard < len(forced):
                targets = forced[ctx.shard]  # boundary cases are always present, one per shard
            if r.random() < 0.4 and "gen-valid" not in targets:
                targets = list(targets) + ["gen-valid"]  # (a valid file adds no problem: the counts above stay what they are)
            for k2, t in enumerate(targets):
                # file names are data: characters that mean something to a formatting template, a shell or a URL are ordinary
                stem = ("v{j}_{k}", "v{j}_{k}", "roads{{v2}}_{j}_{k}", "tile_{{0}}_{j}_{k}", "half{{open_{j}_{k}", "set}}_{j}_{k}", "100%_{j}_{k}",
                        "%s %d_{j}_{k}", "a b_{j}_{k}", "{{line}}_{j}_{k}", "$HOME_{j}_{k}", "it's_{j}_{k}", "a#b=c,d+e_{j}_{k}")[(j + k2) % 13]
                fn = os.path.join(wd, stem.format(j=j, k=k2) + ".map")
                res.seen("cli-validate-file-name-shapes", stem)
                if t == "bad-latin1":
                    with open(fn, "wb") as f:
                        f.write('MAP\n  NAME "caf\xe9"\nEND\n'.encode("latin-1"))
                    files.append(fn)
                    continue
                if t == "bad-selfinclude":
                    with open(fn, "w", encoding="utf-8") as f:
                        f.write(f'MAP\n  INCLUDE "{os.path.basename(fn)}"\nEND\n')
                    files.append(fn)
                    continue
                if t == "gen-valid":
                    # a schema-valid MAP drawn from the whole vocabulary (JOIN, GRID, COMPOSITE, SCALETOKEN ... blocks included)
                    body = 'MAP\n  NAME "fallback"\nEND\n'
                    for _try in range(5):
                        nd = gen.gen_node(r, "map", gen.GenOpts(gated=ctx.gated, valid=True, p_key=0.1, p_child=0.9, decay=0.95, dup=0.0, max_objects=70))
                        gen.apply_gates(nd, ctx.gated)
                        text = render.render([nd]).text
                        if "\r" not in text and "include" not in text.lower():
                            body = text
                            res.count("cli_validate_generated_valid_files")
                            for x in nd.walk():
                                res.seen("block-types-in-generated-valid-files", x.type)
                            break
                    with open(fn, "w", encoding="utf-8") as f:
                        f.write(body)
                    files.append(fn)
                    continue
                if t == "same-message-twice":
                    # two elements of one list value wrong in the same way: two messages with identical text (same keyword, line, column)
                    body = 'MAP\n  SIZE 10.5 10.5\n  LEGEND\n    KEYSIZE 0 0\n  END\n  SCALEBAR\n    SIZE -1 -1\n  END\nEND\n'
                elif t == "bad":
                    body = 'MAP\n NAME "unterminated\n'
                else:
                    layers = "".join(f'  LAYER\n    NAME "l{i}"\n    TYPE POINT\n    STATUS {"NOPE" if i < t else "ON"}\n  END\n' for i in range(max(t, 1)))
                    body = f'MAP\n  NAME "é{j}"\n{layers}END\n'
                with open(fn, "w", encoding="utf-8") as f:
                    f.write(body)
                files.append(fn)
            args = ["validate"] + files + (["--version", str(version)] if version else [])
            p = cli(args, wd)
            # expectation from the API
            want_lines = []
            problems = 0
            ok_files = 0
            for fn in files:
                try:
                    d = mappyfile.open(fn, include_position=True)
                except Exception:
                    want_lines.append(f"{fn} failed to parse successfully")
                    problems += 1
                    continue
                msgs = mappyfile.validate(d, version=version if version else 8.2)
                if msgs:
                    for m in msgs:
                        want_lines.append("{fn} (Line: {line} Column: {column}) {message} - {error}".format(fn=fn, **m))
                    problems += len(msgs)
                else:
                    want_lines.append(f"{fn} validated successfully")
                    ok_files += 1
            want_lines.append(f"{len(files)} file(s) validated ({ok_files} successfully)")
            # "validated" means what the plain API says about the file: the positions the CLI records are bookkeeping
            plain_problems = 0
            for fn in files:
                try:
                    plain_problems += len(mappyfile.validate(mappyfile.open(fn), version=version if version else 8.2)) or 0
                except Exception:
                    plain_problems += 1
            case = {"part": "cli-validate", "targets": targets, "version": version, "problems": problems}
            res.seen("cases", h("validate", targets, version))
            res.seen("problem-counts", str(problems))
            res.seen("exit-statuses", str(p.returncode))
            got_lines = [l for l in p.stdout.split("\n") if l.strip()]
            if got_lines != want_lines:
                i = next((i for i, (a, b) in enumerate(zip(got_lines, want_lines)) if a != b), min(len(got_lines), len(want_lines)))
                res.violation("cli-validate-output-differs-from-api", case, {"n": [len(got_lines), len(want_lines)], "cli": got_lines[i:i + 2],
                                                                             "api": want_lines[i:i + 2]}, None)
            rc = p.returncode
            if plain_problems != problems:
                res.violation("cli-validate-counts-problems-the-plain-api-does-not-report", case, {"with_positions": problems, "plain": plain_problems,
                                                                                                    "cli": got_lines[:3]}, None)
            if problems == 0 and rc != 0:
                res.violation("cli-validate-nonzero-exit-without-problems", case, rc, 0)
            elif problems > 0 and rc == 0:
                res.violation("cli-validate-exit-0-despite-problems", case, {"rc": rc, "problems": problems}, "non-zero")
            elif 0 < problems <= 255 and rc != problems:
                res.violation("cli-validate-exit-status-not-problem-count", case, {"rc": rc, "problems": problems}, problems)
        else:
            version = r.choice([None, 5.0, 6.4, 7.0, 7.6, 8.0, 8.2])
            out = os.path.join(wd, f"schema{j}.json")
            args = ["schema", out] + (["--version", str(version)] if version else [])
            p = cli(args, wd)
            case = {"part": "cli-schema", "version": version}
            res.seen("cases", h("schema", version))
            if p.returncode != 0:
                res.violation("cli-schema-nonzero-exit", case, {"rc": p.returncode, "stderr": p.stderr[-400:]}, 0)
                continue
            got = json.load(open(out, encoding="utf-8"))
            want = json.loads(json.dumps(Validator().get_versioned_schema(version), sort_keys=True, indent=4))
            if got != want:
                res.violation("cli-schema-differs-from-api", case, "JSON values differ", None)
            res.seen("schema-versions", str(version))
    res.count("evaluations", res.counters["api_cycles"] + res.counters["cli_runs"])


def replay(ctx, v):
    print(json.dumps(v["case"], indent=1)[:3000])
    run(ctx)
