"""C16 - pretty-printer layout contract.

Deciding monitor: the icontract postcondition on the real PrettyPrinter.pprint (mf/mon/pprint_contract.py); this
check judges the .layout part of each report: line breaks, per-line indentation, END placement, END comments and
value alignment, computed from an independent reading of the output and from the dictionary.
"""
from __future__ import annotations

import copy
import hashlib
import json

from .. import core, corpus, edits, engine, expect, gen, render, vocab
from ..mon import contracts, pprint_contract as PC

RULE = ("vocabulary dictionaries, generated and loaded documents (with and without kept comments), edited dictionaries and corpus "
        "files are printed under the formatter option sets of C06 (quick: pairwise-covering subset + the sets the repo's tests use; "
        "thorough: all 864); every output line is checked against (open blocks x indent x spacer), END placement, END comments and "
        "the alignment column; distinct = distinct (dictionary fingerprint, option set); non-trivial = at least one line checked")
EVAL_KEY = "contract_evals"
DISTINCT_KEY = "cases"
NSHARDS = {"quick": 8, "thorough": 16}
FLOORS = {"quick": {"contract_judged": 3000, "layout_lines_checked": 60000, "aligned_values_checked": 5000, "distinct:option-sets": 25,
                    "distinct:line-kinds": 25, "separator_character_documents": 12},
          "thorough": {"contract_judged": 35000, "layout_lines_checked": 800000, "aligned_values_checked": 100000,
                       "distinct:option-sets": 400, "distinct:line-kinds": 30, "separator_character_documents": 12}}
ASSUMPTIONS = ["mf/reader.py + mf/printcheck.py read the output independently of the printer",
               "simple keywords for the alignment clause = scalar / list valued keywords and repeatable keywords of one object "
               "(CONFIG, key-value blocks, PROJECTION/POINTS/PATTERN and child blocks excluded)"]
DOMAIN = gen.DOMAIN + ["layout is not judged when newlinechar has no line break; lines that belong to multi-line string values are excepted",
                       "same precondition as C03 (typed objects, known keywords, no output quote / backslash in strings)"]


def h(*a):
    return hashlib.sha1(json.dumps(a, default=str).encode()).hexdigest()[:12]


def flip_quote(d, opts):
    """Use the other quote character when the dictionary's strings contain the chosen one (documented limitation)."""
    from .. import relations

    q = opts["quote"]
    other = "'" if q == '"' else '"'
    if relations.contains_quote(d, q) and not relations.contains_quote(d, other):
        opts = dict(opts, quote=other)
    return opts


def emit(ctx, eng, d, opts, label, extra=None):
    res = ctx.res
    PC.take()
    opts = flip_quote(d, opts)
    case = {"workload": label, "options": opts, "dict": core.canon(d)}
    if extra:
        case.update(extra)
    try:
        out = eng.printer(**opts).pprint(d)
    except Exception as ex:
        res.count("dumps_raised")
        PC.take()
        return
    for rep, result, o in PC.take():
        res.count("contract_evals")
        if rep.skipped:
            res.count("skipped_precondition")
            continue
        if rep.content:
            res.count("content_desync_not_judged_here")
            # (C03 judges content; of the layout findings only the one that does not depend on the walk staying in step is kept)
            for kind, detail in rep.layout:
                if kind == "keyword-line-broken-inside-its-value":
                    res.violation(kind, dict(case, text=result[:4000]), detail, "layout contract")
            continue
        if rep.stats.get("layout_skipped_no_linebreak"):
            res.count("layout_skipped_no_linebreak")
            continue
        res.count("contract_judged")
        res.count("layout_lines_checked", rep.stats.get("layout_lines_checked", 0))
        res.count("aligned_values_checked", rep.stats.get("aligned_values_checked", 0))
        res.seen("option-sets", engine.opt_key(opts))
        for k in ("indent", "spacer", "quote", "newlinechar", "end_comment", "align_values", "separate_complex_types"):
            res.count(f"opt:{k}={opts[k]!r}")
        for lk in rep.linekinds:
            res.seen("line-kinds", lk)
        if rep.stats.get("layout_lines_checked", 0):
            res.seen("cases", h(case["dict"], opts))
        for kind, detail in rep.layout:
            res.violation(kind, dict(case, text=result[:4000]), detail, "layout contract")
    return out


def run(ctx):
    PC.attach()
    eng = engine.Engine(public_every=0)
    res = ctx.res
    r = ctx.rng("c16")
    osets = engine.covering_option_sets(r, 48) if ctx.quick else engine.all_option_sets()
    r.shuffle(osets)
    oi = [0]

    def next_opts():
        oi[0] += 1
        return dict(osets[(oi[0] * ctx.nshards + ctx.shard) % len(osets)])

    # vocabulary dictionaries
    for i, (o, k, ai) in enumerate(gen.vocab_slots()):
        if not ctx.mine(i):
            continue
        p = vocab.prop(o, k)
        a = p.alts[ai]
        if (o, k) in gen.UNWRITABLE or (a.kind == "block" and (o, k + ":block") in gen.UNWRITABLE):
            continue
        node, it = gen.vocab_doc(r, o, k, ai, r.choice(["first", "middle", "last"]))
        emit(ctx, eng, expect.build_doc([node], edits.mkdict), next_opts(), "vocab", {"slot": f"{o}.{k}:{a.kind}"})
    # generated documents (built, loaded, loaded with comments) x several option sets
    n = ctx.n(1800, 24000)
    for j in range(n):
        nodes = gen.gen_document(r, gen.GenOpts(gated=ctx.gated, p_key=r.choice([0.2, 0.4]), dup=0.0))
        mode = j % 3
        if mode == 0:
            d = expect.build_doc(nodes, edits.mkdict)
        else:
            s = render.surfaces(r, 1)[0]
            d = eng.loads(render.render(nodes, s, r).text, include_comments=(mode == 2))
        for _ in range(3):
            out = emit(ctx, eng, copy.deepcopy(d), next_opts(), ("built", "loaded", "loaded+comments")[mode])
        if out and len(res.samples) < 2 and 150 < len(out) < 700:
            res.sample({"options": engine.opt_key(osets[0]), "text": out})
    # commented keyword lines whose value (or comment) holds a character that some line-splitting routines treat as a line end
    # (VT, FF, FS, GS, RS, NEL, U+2028, U+2029): they are ordinary characters, the keyword line stays one line
    if ctx.shard == 0:
        for ch in "\x0b\x0c\x1c\x1d\x1e\x85\u2028\u2029":
            for text in (f'MAP\n  NAME "front{ch}back" # the name of the map\n  STATUS ON\n  LAYER\n    NAME "l" /* c{ch}d */\n    DATA "a{ch}" # data\n  END\nEND\n',
                         f'LAYER\n  # above{ch}x\n  NAME "l{ch}{ch}m" # n\n  METADATA\n    "k{ch}" "v{ch}w" # pair\n  END\nEND\n'):
                try:
                    d = eng.loads(text, include_comments=True)
                except Exception as ex:
                    res.count("separator_document_not_accepted:" + type(ex).__name__)
                    continue
                res.count("separator_character_documents")
                for _ in range(4):
                    emit(ctx, eng, copy.deepcopy(d), next_opts(), "separator-characters+comments", {"character": repr(ch)})
    # objects whose simple keywords are all SHORT while they also hold CONFIG lines, key-value blocks, PROJECTION / PATTERN / POINTS or
    # child blocks: none of those names takes part in "the longest simple keyword" of the alignment rule
    containers = set(vocab.kv_keys()) | {"config", "projection", "pattern", "points"}
    for ti, t in enumerate(vocab.object_types()):
        if not ctx.mine(ti):
            continue
        slots = set(vocab.child_slots(t))
        for L in (3, 4, 5, 6, 8):
            skip = {k for k in vocab.props(t) if len(k) > L and k not in containers and k not in slots}
            for rep in range(2):
                nd = gen.gen_node(r, t, gen.GenOpts(gated=ctx.gated, p_key=0.7, p_child=0.6, dup=0.0, max_objects=4, skip_keys=skip))
                if not any(it.kind != "block" and it.key not in containers for it in nd.items):
                    continue
                res.count("short_keyword_objects")
                d = expect.build_doc([nd], edits.mkdict)
                for ind in (0, 1, 2, 3, 5, 6):
                    o = dict(next_opts(), align_values=True, indent=ind)
                    if o["newlinechar"] == " ":
                        o["newlinechar"] = "\n"
                    emit(ctx, eng, copy.deepcopy(d), o, "short-keywords", {"type": t, "longest": L})
    # several roots in one document (an include fragment), key-value blocks among them: METADATA ... END CLASS ... END
    for j in range(ctx.n(160, 2400)):
        parts = []
        for _ in range(r.randint(2, 4)):
            if r.random() < 0.4:
                kw = r.choice(["METADATA", "VALIDATION", "CONNECTIONOPTIONS"])
                pairs = " ".join(f'"k{i}" "{gen.rand_string(r, False, multiline_ok=False).replace(chr(34), "")}"' for i in range(r.randint(1, 3)))
                parts.append(f"{kw} {pairs} END")
            else:
                nd = gen.gen_node(r, r.choice(["class", "layer", "style", "label", "class"]), gen.GenOpts(gated=ctx.gated, p_key=0.15, dup=0.0, max_objects=6))
                parts.append(render.render([nd]).text)
        text = "\n".join(parts)
        try:
            d = eng.loads(text, include_comments=False)
        except Exception as ex:
            res.count("multi_root_text_not_accepted:" + type(ex).__name__)
            continue
        if not isinstance(d, list):
            continue
        res.count("multi_root_documents")
        res.seen("multi-root-shapes", " ".join("kv" if x.get("__type__") in vocab.kv_keys() else "obj" for x in d))
        for _ in range(2):
            emit(ctx, eng, copy.deepcopy(d), next_opts(), "multi-root")
    # edited dictionaries
    for j in range(ctx.n(600, 8000)):
        nodes = [gen.gen_node(r, r.choice(["map", "layer", "class", "style", "label"]), gen.GenOpts(gated=ctx.gated, p_key=0.2, dup=0.0, max_objects=12))]
        root, ops, feats = edits.gen_history(r, expect.build_doc(nodes, edits.mkdict), r.randint(1, 15), gated=ctx.gated,
                                             allow_missing_reads=False)
        emit(ctx, eng, root, next_opts(), "edited", {"ops": ops[-8:]})
    # corpus
    for path, text in corpus.texts(ctx):
        try:
            d = eng.loads(text, include_comments=r.random() < 0.4)
        except Exception:
            continue
        for _ in range(2 if ctx.quick else 6):
            emit(ctx, eng, copy.deepcopy(d), next_opts(), "corpus", {"file": corpus.rel(path)})
    if not ctx.quick and ctx.shard == 0:
        from .. import suite
        data, tail = suite.run_suite()
        if data is None:
            res.inconclusive_because("repository test-suite under contracts did not finish: " + str(tail)[-200:])
        else:
            res.count("suite_tests", data["tests"])
            res.count("suite_pprint_judged", data["pprint_judged"])
            for x in data["layout"]:
                res.violation("under-repo-tests:" + x["kind"], {"workload": "repo-suite", "test": x["test"], "text": x["text"], "dict": None,
                                                                 "options": x.get("options")}, x["detail"], None)
    if contracts.EVALS.get("pprint-monitor-error", 0):
        res.inconclusive_because("the pprint monitor itself raised on some outputs")


def replay(ctx, v):
    PC.attach()
    eng = engine.Engine(public_every=0)
    case = v["case"]
    out = emit(ctx, eng, core.decanon(case["dict"]), case["options"], "replay")
    print(out)
