"""C14 - kept comments are verbatim, never invented or duplicated, and stay attached.

Deciding monitor: offline checker over the (source comments, output comments) recorded for every
dumps(loads(s, include_comments=True)): multiset containment with decomposition of single-space joins; content
relation loads(out_with) == loads(out_without); placement relations for uniquely numbered comments whose intended
placement the renderer knows.
"""
from __future__ import annotations

import collections
import hashlib
import os

from .. import core, corpus, engine, gen, reader, relations, render
from ..engine import Engine

RULE = ("generated documents in one-keyword-per-line layout with uniquely numbered # and /* */ comments at the end of every simple "
        "keyword line and directly above object/METADATA/VALIDATION/CONNECTIONOPTIONS openers (all four clauses), documents with "
        "snippet documents whose roots are key-value blocks or objects with numbered comments above each root opener, documents with "
        "random gap comments and the corpus files with their own comments (verbatim / no-duplication / content clauses), printed with "
        "newlinechar LF and CRLF; distinct = distinct source text; non-trivial = the source holds at least one comment")
EVAL_KEY = "documents_judged"
DISTINCT_KEY = "documents"
NSHARDS = {"quick": 8, "thorough": 16}
FLOORS = {"quick": {"documents_judged": 600, "output_comments_checked": 5000, "placed_trailing_checked": 800, "placed_above_checked": 400,
                    "content_checks": 600, "snippet_documents": 100},
          "thorough": {"documents_judged": 10000, "output_comments_checked": 100000, "placed_trailing_checked": 25000,
                       "placed_above_checked": 12000, "content_checks": 10000, "snippet_documents": 2000}}
ASSUMPTIONS = ["mf/reader.py's comment scanner (agrees with the lexer's capture on all corpus comments)",
               "the printer is documented and tested to merge several comments of one keyword with single spaces: joins are decomposed"]
DOMAIN = gen.DOMAIN + ["documents whose strings contain the default quote character or a backslash are skipped",
                       "with end_comment=True the '# TYPE' text after END is the option's own product, not a kept comment",
                       "placement clauses only for one comment per line at the claimed placements; duplicated keywords carry no placed comment"]


def h(s):
    return hashlib.sha1(s.encode()).hexdigest()[:12]


def decompose(t, avail):
    """Can output comment text t be written as a single-space join of available source comments?  Returns the list used or None."""
    if avail.get(t, 0) > 0:
        return [t]
    for i in range(1, len(t)):
        if t[i] == " ":
            head = t[:i]
            if avail.get(head, 0) > 0:
                avail[head] -= 1
                rest = decompose(t[i + 1:], avail)
                if rest is not None:
                    avail[head] += 1
                    return [head] + rest
                avail[head] += 1
    return None


def judge(ctx, eng, text, label, ident, opts, placed=None):
    res = ctx.res
    try:
        d = eng.loads(text, include_comments=True)
        plain_d = eng.loads(text)
    except Exception:
        res.count("not_accepted:" + label)
        return
    if relations.contains_quote(plain_d, opts.get("quote", '"')) or relations.has_backslash(plain_d):
        res.count("excluded:quote-or-backslash-in-string")
        return
    try:
        src = [c.strip() for c, _ in reader.comments(text)]
    except reader.ScanError:
        res.count("source_not_scannable")
        return
    if not src:
        res.count("no_comments_in_source")
        return
    case = {"workload": label, "doc": ident, "options": opts, "text": text if len(text) < 20000 else None}
    res.count("documents_judged")
    res.seen("documents", h(text))
    res.count("source_comments", len(src))
    try:
        out = eng.dumps(d, **opts)
        out_plain = eng.dumps(plain_d, **opts)
    except Exception as ex:
        res.violation("commented-dictionary-does-not-print", case, f"{type(ex).__name__}: {str(ex)[:300]}", None)
        return
    case_o = dict(case, out=out[:4000])
    # ---- verbatim + no duplication
    try:
        outc = reader.read_lines(out, opts["newlinechar"])
        allc = [(t.text.strip(), t.line) for t in reader.scan(out) if t.kind in ("comment", "ccomment")]
    except reader.ScanError as ex:
        res.violation("commented-output-not-scannable", case_o, str(ex), None)
        return
    avail = collections.Counter(src)
    used = collections.Counter()
    end_lines = set()
    if opts.get("end_comment"):
        for st in outc:
            if st.tokens and st.tokens[0].kind == "word" and st.tokens[0].text.upper() == "END" and st.comment is not None:
                end_lines.add(st.comment.start)
    toks = [t for t in reader.scan(out) if t.kind in ("comment", "ccomment")]
    for t in toks:
        txt = t.text.strip()
        if t.start in end_lines:
            # "# TYPE" possibly followed by kept comments is not produced: the END comment is the option's own text
            res.count("end_comments_exempted")
            continue
        res.count("output_comments_checked")
        parts = decompose(txt, avail)
        if parts is None:
            res.violation("comment-not-verbatim-source-text", case_o, txt, "a source comment or a single-space join of source comments")
            continue
        if len(parts) > 1:
            res.count("joins_decomposed")
        for p in parts:
            used[p] += 1
    over = {k: (used[k], avail[k]) for k in used if used[k] > avail[k]}
    if over:
        res.violation("comment-written-more-often-than-it-occurs", case_o, over, None)
    res.count("comments_re_emitted", sum(used.values()))
    # ---- content clause
    res.count("content_checks")
    try:
        a = eng.loads(out)
        b = eng.loads(out_plain)
        if core.plain(a) != core.plain(b):
            res.violation("comments-change-content", case_o, core.first_diff(core.plain(b), core.plain(a)), None)
    except Exception as ex:
        res.violation("commented-output-not-accepted", case_o, f"{type(ex).__name__}: {str(ex)[:300]}", None)
        return
    # ---- placement clauses
    if placed:
        by_comment = {}
        for st in outc:
            if st.comment is not None:
                by_comment.setdefault(st.comment.text.strip(), []).append(st)
        line_index = {st.lineno: i for i, st in enumerate(outc)}
        groups = collections.OrderedDict()
        for ctext, kind, name, owner in placed:
            if kind == "trailing":
                res.count("placed_trailing_checked")
                res.seen("placement-kinds", "trailing:" + ("#" if ctext.startswith("#") else "/**/"))
                sts = by_comment.get(ctext)
                if not sts:
                    res.violation("trailing-comment-lost-or-moved", case_o, ctext, f"at the end of the {name.upper()} line")
                    continue
                st = sts[0]
                if not st.tokens or st.tokens[0].kind != "word" or st.tokens[0].text.upper() != name.upper() or \
                        st.comment.start < st.tokens[-1].end:
                    res.violation("trailing-comment-not-on-its-keyword-line", case_o, {"comment": ctext, "line": st.raw[:200]},
                                  f"at the end of the {name.upper()} line")
            else:
                groups.setdefault((owner, name), []).append(ctext)
        for (owner, name), grp in groups.items():
            res.count("placed_above_checked")
            res.seen("placement-kinds", "above:" + name + (":banner" if len(set(grp)) < len(grp) else ""))
            # the group's comment lines, in order, must sit directly above an opener of that type (texts may repeat: banner lines)
            texts = [g.strip() for g in grp]
            found = False
            for i in range(len(outc) - len(texts)):
                window = outc[i:i + len(texts)]
                if all(st.comment is not None and not st.tokens and st.comment.text.strip() == t for st, t in zip(window, texts)):
                    nxt = outc[i + len(texts)]
                    if nxt.tokens and nxt.tokens[0].kind == "word" and nxt.tokens[0].text.upper() == name.upper():
                        found = True
                        break
            if not found:
                present = [t for t in texts if any(st.comment is not None and st.comment.text.strip() == t for st in outc)]
                res.violation("comments-not-directly-above-their-block", case_o, {"comments": texts, "still_somewhere_in_output": present},
                              f"{len(texts)} comment line(s) directly above the {name.upper()} opener")


def run(ctx):
    eng = Engine(public_every=100)
    res = ctx.res
    r = ctx.rng("c14")
    optsets = [dict(newlinechar="\n"), dict(newlinechar="\r\n"), dict(newlinechar="\n", indent=2, quote="'"),
               dict(newlinechar="\r\n", align_values=True), dict(newlinechar="\n", end_comment=True),
               dict(newlinechar="\n", spacer="\t", indent=1)]
    for path, text in corpus.texts(ctx):
        for o in (optsets[:2] if ctx.quick else optsets):
            judge(ctx, eng, text, "corpus", corpus.rel(path), dict(o))
    snippets(ctx, eng, r, optsets)
    n = ctx.n(500, 16000)
    for j in range(n):
        nodes = gen.gen_document(r, gen.GenOpts(gated=ctx.gated, p_key=r.choice([0.2, 0.4]), dup=0.0,
                                                symbol_files="symbolset-root-bookkeeping" not in ctx.gated))
        if j % 4 != 3:
            placed = gen.place_comments(nodes, r)
            s = render.Surface(layout="lines", placed_comments=True, eol=r.choice(["\n", "\r\n"]), indent=r.choice(["  ", "\t", ""]),
                               kwcase=r.choice(["upper", "lower"]), bare=r.choice([0.0, 0.5, 1.0]), quote=r.choice(["dq", "sq"]))
            text = render.render(nodes, s, r).text
            o = dict(r.choice(optsets[:4]))
            judge(ctx, eng, text, "placed", h(text), o, placed=placed)
            if len(res.samples) < 2 and 150 < len(text) < 700:
                res.sample({"source": text, "printed": eng.dumps(eng.loads(text, include_comments=True), **o)})
        else:
            s = render.surfaces(r, 1)[0]
            s.gap_comments = r.choice([0.2, 0.5])
            text = render.render(nodes, s, r).text
            judge(ctx, eng, text, "gap-comments", h(text), dict(r.choice(optsets)))


def snippets(ctx, eng, r, optsets):
    """Snippet documents (what an INCLUDEd file or a hand-made fragment holds): one to three roots, key-value blocks among them, each
    with uniquely numbered comment lines directly above its opener."""
    for j in range(ctx.n(120, 2400)):
        parts, placed = [], []
        for i in range(r.choice([1, 1, 1, 2, 3])):
            n = r.randint(1, 3)
            if i == 0 or r.random() < 0.6:
                kw = r.choice(["METADATA", "VALIDATION", "CONNECTIONOPTIONS"])
                body = [f'  "k{x}" "{r.choice(["v", "a b", "1", "wms title"])}{x}"' for x in range(r.randint(0, 3))]
            else:
                kw = r.choice(["CLASS", "STYLE", "LABEL", "LAYER"])
                body = [{"CLASS": '  NAME "c"', "STYLE": "  SIZE 3", "LABEL": "  SIZE 8", "LAYER": '  NAME "l"\n  TYPE POINT'}[kw]]
            cm = [(f"# snippet {j}.{i}.{c} above {kw.lower()}" if r.random() < 0.7 else f"/* snippet {j}.{i}.{c} above {kw.lower()} */") for c in range(n)]
            parts.append("\n".join(cm + [kw if r.random() < 0.7 else kw.lower()] + body + ["END"]))
            placed += [(c, "above", kw.lower(), (j, i)) for c in cm]
        eol = r.choice(["\n", "\r\n"])
        text = eol.join("\n".join(parts).split("\n")) + eol
        ctx.res.count("snippet_documents")
        judge(ctx, eng, text, "snippet", h(text), dict(r.choice(optsets[:4])), placed=placed)


def replay(ctx, v):
    eng = Engine(public_every=0)
    case = v["case"]
    text = case.get("text") or open(os.path.join(core.REPO, case["doc"]), encoding="utf-8").read()
    judge(ctx, eng, text, "replay", case["doc"], case["options"])
    print(eng.dumps(eng.loads(text, include_comments=True), **case["options"]))
