"""C15 - INCLUDE expansion equals textual substitution, bounded at 5 levels.

Deciding monitors: (1) relation open(root) == loads(flatten(tree)) where flatten is an independent substitution over the
generator's own file tree; (2) sys.addaudithook 'open' events between call and return: the set of files read must be
exactly the tree's files at their expected absolute paths (decides path resolution even when contents coincide);
(3) outcome contract for depth >= 6, cycles and missing files.
"""
from __future__ import annotations

import hashlib
import os
import shutil
import tempfile

from .. import core, gen, render
from ..engine import Engine
from ..mon import audit

RULE = ("random include trees cut out of generated documents at line boundaries: fan-out <= 4, depth 0..7, files in nested "
        "sub-directories, relative and absolute paths, quoted (both kinds) and unquoted names, trailing # comments, LF and CRLF; loaded "
        "through open, load (file object) and loads from three different working directories; distinct = distinct (tree shape, path "
        "styles, front end); non-trivial = at least one INCLUDE")
EVAL_KEY = "loads_judged"
DISTINCT_KEY = "cases"
NSHARDS = {"quick": 8, "thorough": 16}
FLOORS = {"quick": {"loads_judged": 400, "open_event_checks": 200, "depth_boundary_cases": 50, "no_expand_cases": 80, "no_expand_self_contained_judged": 80,
                    "no_expand_write_back_judged": 50, "missing_file_cases": 25, "missing_file_then_restored_cases": 25},
          "thorough": {"loads_judged": 12000, "open_event_checks": 7000, "depth_boundary_cases": 2000, "no_expand_cases": 2500, "no_expand_self_contained_judged": 2500, "no_expand_write_back_judged": 1500,
                       "missing_file_cases": 700, "missing_file_then_restored_cases": 700}}
ASSUMPTIONS = ["flatten() substitutes over the generator's own tree (it never re-scans text)", "audit 'open' events are complete for builtins.open / io.open"]
DOMAIN = ["file names holding a blank or '#' are written quoted; INCLUDE directives on their own line outside strings and comments (documents with strings running over several lines are cut between statements only)",
          "with expand_includes=False the directives sit inside object blocks (a directive outside any block is not Mapfile data) and the root is "
          "a complete document on its own (directives stand for whole statements / whole blocks); write-back is judged for dictionaries without "
          "the quote character or a backslash in a string (C01's domain)"]


class File:
    def __init__(self, rel, depth):
        self.rel = rel  # posix path relative to the root directory
        self.depth = depth
        self.entries = []  # str (a text line) | Inc
        self.eol = "\n"
        self.trailing_newline = True


class Inc:
    def __init__(self, target, style):
        self.target = target
        self.style = style

    def line(self, rootdir):
        st = self.style
        if st["quote"] == "none" and (not (self.target.rel.split("/")[-1][0].isalnum() or self.target.rel.split("/")[-1][0] == "_")
                                      or " " in self.target.rel or "#" in self.target.rel):
            st = dict(st, quote="dq")  # (only plain names can be written without quotes)
        path = os.path.join(rootdir, self.target.rel) if st["abs"] else self.target.rel
        q = {"dq": '"', "sq": "'", "none": ""}[st["quote"]]
        kw = {"upper": "INCLUDE", "lower": "include", "title": "Include"}[st["case"]]
        return f"{st['indent']}{kw}{st['gap']}{q}{path}{q}{st['comment']}"


GATED = set()


def rand_style(r):
    ab = r.random() < 0.2
    quote = r.choice(["dq", "dq", "sq", "none"])
    if ab and quote == "none" and "unquoted-absolute-path-lexed-as-regex" in GATED:
        quote = "dq"
    return {"abs": ab, "quote": quote, "case": r.choice(["upper", "upper", "lower", "title"]),
            "indent": r.choice(["", "  ", "\t", "    "]), "gap": r.choice([" ", "  ", "\t"]),
            "comment": r.choice(["", "", " # included part", "  # a 'quoted' comment", " #c"])}


class TreeGen:
    def __init__(self, r):
        self.r = r
        self.n = 0
        self.files = []

    def newfile(self, depth):
        self.n += 1
        r = self.r
        sub = r.choice(["", "", "inc", "inc/deep", "parts", "a.b", "sub dir"])
        name = r.choice(["part", "layer", "inc_file", "x-y", "UPPER", "f", "part", "layer",
                         # legal file names that start with something else than a letter or digit (always written quoted)
                         "@shared", "(old)", "+extras", "[major]", "~tmp", "=x", "é", "_u", "-dash", "!bang", "&amp", "%pct",
                         # ... and names holding a blank or a # (always written quoted)
                         "two words", "part one", "with#hash", "a b#c d"]) + str(self.n) + r.choice([".map", ".inc", ".txt", ""])
        f = File((sub + "/" if sub else "") + name, depth)
        f.eol = r.choice(["\n", "\n", "\r\n"])
        f.trailing_newline = r.random() < 0.7
        self.files.append(f)
        return f

    def build(self, f, lines, target_depth, force_chain):
        """Fill file f (at depth f.depth) with `lines`, cutting out up to 4 ranges into child files."""
        r = self.r
        if f.depth >= target_depth or len(lines) < 1:
            f.entries = list(lines)
            return
        k = r.randint(1, 4)
        n = len(lines)
        cuts = sorted(r.sample(range(n + 1), min(2 * k, n + 1)))
        ranges = [(cuts[i], cuts[i + 1]) for i in range(0, len(cuts) - 1, 2) if cuts[i + 1] > cuts[i]]
        if not ranges:
            ranges = [(0, n)]
        pos = 0
        first = True
        for a, b in ranges:
            f.entries.extend(lines[pos:a])
            child = self.newfile(f.depth + 1)
            td = target_depth if (first and force_chain) else r.randint(f.depth + 1, target_depth)
            self.build(child, lines[a:b], td, first and force_chain)
            inc = Inc(child, rand_style(r))
            inc.range_balanced = balanced(lines[a:b])  # the part stands for whole statements / whole blocks
            f.entries.append(inc)
            first = False
            pos = b
        f.entries.extend(lines[pos:])


def flatten(f):
    out = []
    for e in f.entries:
        if isinstance(e, Inc):
            out.extend(flatten(e.target))
        else:
            out.append(e)
    return out


def max_depth(f, d=0):
    """Deepest nesting reached below f when f itself sits at depth d (a file included twice counts at each place)."""
    return max([d] + [max_depth(e.target, d + 1) for e in f.entries if isinstance(e, Inc)])


def height(f):
    return max_depth(f, 0)


def logical_lines(text):
    """The text cut at line ends that lie outside every token: a quoted string (or expression) running over several lines stays
    in one entry, so a cut never falls inside a string.  None when a continuation line could be mistaken for a directive."""
    from .. import reader
    try:
        toks = reader.scan(text, keep_comments=True)
    except reader.ScanError:
        return None
    inside = set()  # offsets of line feeds inside a token
    for t in toks:
        if "\n" in t.text and t.kind != "comment":
            inside.update(t.start + i for i, c in enumerate(t.text) if c == "\n")
    out, cur = [], []
    for i, c in enumerate(text):
        if c == "\n" and i not in inside:
            out.append("".join(cur))
            cur = []
        else:
            cur.append(c)
    out.append("".join(cur))
    out = [l for l in out if l.strip()]
    for l in out:
        for cont in l.split("\n")[1:]:
            if cont.strip().lower().startswith("include"):
                return None
    return out


def balanced(lines):
    """True when the statements open and close their own blocks only (in the 'lines' layout a block opener is a line holding
    one bare word, and END stands alone)."""
    import re
    depth = 0
    for l in lines:
        w = l.strip()
        if w.upper() == "END":
            depth -= 1
            if depth < 0:
                return False
        elif re.fullmatch(r"[A-Za-z_]+", w) and w.upper() != "AUTO":  # (PROJECTION AUTO END: AUTO is a value)
            depth += 1
    return depth == 0


NO_DIRECTIVE_PARENTS = {"METADATA", "VALIDATION", "VALUES", "CONNECTIONOPTIONS", "PATTERN", "POINTS", "PROJECTION"}


def balanced_cuts(r, lines, k):
    """Replace up to k ranges of whole statements / whole blocks inside object blocks by INCLUDE directives.
    Returns (entries, [(name, style)]) - what remains is a complete document on its own."""
    import re
    n = len(lines)
    parents = []
    owner = []
    stack = []
    for li, l in enumerate(lines):
        w = l.strip()
        parents.append(stack[-1][0] if stack else None)
        owner.append(stack[-1][1] if stack else None)
        if w.upper() == "END":
            if stack:
                stack.pop()
        elif re.fullmatch(r"[A-Za-z_]+", w) and w.upper() != "AUTO":
            stack.append((w.upper(), li))
    out = []
    incs = []
    i = 1
    starts = sorted(r.sample(range(1, max(2, n - 1)), min(k, max(0, n - 2))))
    pos = 0
    # blocks in which the ORDER of keywords is constrained by a listed finding (QUERYMAP STYLE <word> must stay last, IMAGEMODE FEATURE
    # must not become the first keyword of a nested OUTPUTFORMAT): a directive or a cut there would re-create the finding
    avoid = set(NO_DIRECTIVE_PARENTS)
    if "querymap-style-keyword" in GATED:
        avoid.add("QUERYMAP")
    if "first-keyword-value-is-block-word" in GATED:
        avoid.add("OUTPUTFORMAT")
    for st in starts:
        if st < pos or st < 1 or parents[st] is None or parents[st] in avoid:
            continue
        # extend to a balanced range that stays inside the same parent block
        ends = [e for e in range(st, min(n - 1, st + 12) + 1) if balanced(lines[st:e])]
        if not ends:
            continue
        en = r.choice(ends)
        out.extend(lines[pos:st])
        rel = r.choice(["", "inc/", "a.b/"]) + r.choice(["part", "layer", "x-y", "UPPER", "Mixed.Case"]) + str(len(incs)) + r.choice([".map", ".inc", ""])
        tgt = File(rel, 1)
        tgt.entries = lines[st:en]
        inc = Inc(tgt, rand_style(r))
        inc.owner = owner[st]  # line number of the opener of the object the directive sits in
        out.append(inc)
        incs.append(inc)
        pos = en
    out.extend(lines[pos:])
    return out, incs


def dfs(f, d=0, out=None):
    out = [] if out is None else out
    out.append((f, d))
    for e in f.entries:
        if isinstance(e, Inc):
            dfs(e.target, d + 1, out)
    return out


def make_dag(r, root):
    """Include an already used file a second time somewhere else (same file at two depths).  Returns a description or None."""
    occ = dfs(root)
    cands = [(f, d) for f, d in occ if d >= 1 and height(f) >= 1]
    if not cands:
        return None
    x, dx = r.choice(cands)
    hx = height(x)
    below_x = {id(f) for f, _ in dfs(x)}
    hosts = [(f, d) for f, d in occ if id(f) not in below_x and f is not root and d >= 1]
    if not hosts:
        return None
    # prefer a host that pushes the second occurrence over the limit
    deep = [(f, d) for f, d in hosts if d + 1 + hx > 5]
    host, dh = r.choice(deep) if deep and r.random() < 0.7 else r.choice(hosts)
    host.entries.insert(r.randint(0, len(host.entries)), Inc(x, rand_style(r)))
    return {"file": x.rel, "first_depth": dx, "second_depth": dh + 1, "height_below": hx}


def write_tree(root, rootdir, files):
    for f in files:
        p = os.path.join(rootdir, f.rel)
        os.makedirs(os.path.dirname(p), exist_ok=True)
        lines = [e.line(rootdir) if isinstance(e, Inc) else e for e in f.entries]
        with open(p, "w", encoding="utf-8", newline="") as fh:
            fh.write(f.eol.join(lines) + (f.eol if f.trailing_newline else ""))


def expected_opens(f, rootdir, acc):
    for e in f.entries:
        if isinstance(e, Inc):
            acc.append(os.path.abspath(os.path.join(rootdir, e.target.rel)))
            expected_opens(e.target, rootdir, acc)
    return acc


def h(*a):
    return hashlib.sha1(repr(a).encode()).hexdigest()[:12]


def run(ctx):
    base = tempfile.mkdtemp(prefix="mf-c15-")
    old = os.getcwd()
    gen.MULTILINE[0] = False
    try:
        _run(ctx, base)
    finally:
        gen.MULTILINE[0] = True
        os.chdir(old)
        shutil.rmtree(base, ignore_errors=True)


def _run(ctx, base):
    import mappyfile

    res = ctx.res
    GATED.update(ctx.gated)
    r = ctx.rng("c15")
    eng = Engine(public_every=0)
    aud = audit.OpenAudit.get()
    cwds = [os.path.join(base, "cwd1"), os.path.join(base, "cwd2", "nested"), base]
    for c in cwds:
        os.makedirs(c, exist_ok=True)
    n = ctx.n(200, 7000)
    for j in range(n):
        # every third tree is cut out of a document with strings that run over several lines (cuts only between statements, so
        # an included file may begin with a line that ends inside a string)
        gen.MULTILINE[0] = (j % 3 == 0)
        nodes = gen.gen_document(r, gen.GenOpts(gated=ctx.gated, p_key=r.choice([0.3, 0.5]), dup=0.0),
                                 root=r.choice(["map", "map", "layer", "class"]))
        gen.MULTILINE[0] = False
        text = render.render(nodes[:1], render.Surface(layout="lines", indent=r.choice(["  ", "\t"]))).text
        lines = logical_lines(text)
        if lines is None or len(lines) < 3:
            continue
        if any("\n" in l for l in lines):
            res.count("trees_with_multi_line_strings")
        D = r.choice([0, 1, 1, 2, 3, 4, 5, 5, 5, 6, 6, 7])
        # the opener and the final END stay in the root file so that every directive sits inside a block
        tg = TreeGen(r)
        root = File("root%d.map" % j, 0)
        tg.files.append(root)
        inner = File("__inner__", 0)
        tg.build(inner, lines[1:-1], D, True)
        root.entries = [lines[0]] + inner.entries + [lines[-1]]
        if j % 3 == 1:
            # placeholder files: zero bytes, a lone line end, a lone comment, or nothing but the INCLUDE of another placeholder
            kind = r.choice(["zero-bytes", "zero-bytes", "newline-only", "comment-only", "includes-a-zero-byte-file"])
            ph = tg.newfile(1)
            ph.trailing_newline = kind == "newline-only"
            if kind == "comment-only":
                ph.entries = ["# placeholder"]
            elif kind == "includes-a-zero-byte-file":
                ph2 = tg.newfile(2)
                ph2.trailing_newline = False
                ph.trailing_newline = False
                ph.entries = [Inc(ph2, rand_style(r))]
            inc = Inc(ph, rand_style(r))
            inc.range_balanced = True
            root.entries.insert(r.randint(1, len(root.entries) - 1), inc)
            res.count("trees_with_placeholder_files")
            res.seen("placeholder-kinds", kind)
        root.eol = r.choice(["\n", "\r\n"])
        rootdir = os.path.join(base, f"t{ctx.shard}_{j}", r.choice(["", "maps", "a/b"]))
        os.makedirs(rootdir, exist_ok=True)
        files = [f for f in tg.files if f is not inner]
        dag = None
        if D >= 2 and r.random() < 0.35:
            dag = make_dag(r, root)
            if dag:
                res.count("dag_cases")
                res.seen("dag-kinds", f"first@{dag['first_depth']} second@{dag['second_depth']} height={dag['height_below']}")
        # the word "include" in places that are no directive: comments in files that include nothing themselves (also the deepest ones)
        for f, _d in dfs(root):
            if not any(isinstance(e, Inc) for e in f.entries) and r.random() < 0.4:
                f.entries.insert(r.randint(0, len(f.entries)), r.choice(["  # fields to include: a, b", "# Include \"x.map\" was removed here",
                                                                         "  # wms_include_items all", "#include"]))
                res.count("files_mentioning_include_without_directive")
        write_tree(root, rootdir, files)
        depth = max_depth(root)
        ninc = len(files) - 1
        root_path = os.path.join(rootdir, root.rel)
        flat = "\n".join(flatten(root))
        styles = sorted({(e.style["quote"], e.style["abs"], bool(e.style["comment"])) for f in files for e in f.entries if isinstance(e, Inc)})
        res.count(f"trees:depth={depth}")
        res.count(f"trees:includes={min(ninc, 8)}")
        try:
            want = core.plain(eng.loads(flat))
        except Exception as ex:
            # (a part included a second time somewhere else usually leaves unbalanced blocks)
            res.count(("flattened-text-not-accepted(part-included-twice):" if dag else "flattened-text-not-accepted(generated document itself):") + type(ex).__name__)
            if depth <= 5:
                continue
            want = None  # too deep anyway: only the refusal is judged
        # decoys: files with the same RELATIVE names (different content) under one of the foreign working directories
        decoy_dir = cwds[j % 2]
        made = []
        if j % 2 == 0:
            for f in files[1:]:
                dp = os.path.join(decoy_dir, f.rel)
                os.makedirs(os.path.dirname(dp), exist_ok=True)
                with open(dp, "w", encoding="utf-8") as fh:
                    fh.write('NAME "decoy-must-never-be-read"\n')
                made.append(dp)
            res.count("trees_with_decoys_in_cwd")
        for via in ("open", "load", "loads"):
            os.chdir(rootdir if via == "loads" else (decoy_dir if made else r.choice(cwds)))
            if via == "loads" and any(e.style["abs"] is False for f in files for e in f.entries if isinstance(e, Inc)) is None:
                pass
            case = {"via": via, "depth": depth, "includes": ninc, "root": root_path, "flat": flat[:4000], "dag": dag,
                    "files": {f.rel: (f.eol.join(e.line(rootdir) if isinstance(e, Inc) else e for e in f.entries))[:1500] for f in files[:12]}}
            res.count("loads_judged")
            res.seen("cases", h(depth, ninc, styles, via))
            res.seen("path-styles", repr(styles))
            aud.start()
            try:
                if via == "open":
                    d = mappyfile.open(root_path)
                elif via == "load":
                    with open(root_path, encoding="utf-8", newline="") as fp:
                        d = mappyfile.load(fp)
                else:
                    with open(root_path, encoding="utf-8", newline="") as fp:
                        rt = fp.read()
                    aud.stop()
                    aud.start()
                    d = mappyfile.loads(rt)
                out = ("ok", d)
            except Exception as ex:
                out = ("exc", ex)
            events = aud.stop()
            reads = [os.path.abspath(p) for p, mode, _ in events if isinstance(p, str) and (mode is None or "r" in str(mode))
                     and (p.endswith((".map", ".inc", ".txt")) or os.path.abspath(p).startswith(base))]
            reads = [p for p in reads if p.startswith(base)]
            if depth >= 6:
                res.count("depth_boundary_cases")
                if out[0] == "ok":
                    res.violation("nesting-deeper-than-five-accepted", case, "a dictionary", "an error")
                elif isinstance(out[1], RecursionError):
                    res.violation("deep-nesting-exhausts-recursion", case, "RecursionError", "a bounded error")
                else:
                    res.count("deep_nesting_refused:" + type(out[1]).__name__)
                continue
            if depth == 5:
                res.count("depth_boundary_cases")
            if out[0] != "ok":
                res.violation("include-tree-not-loaded", case, f"{type(out[1]).__name__}: {str(out[1])[:300]}", "same as the flattened text")
                continue
            got = core.plain(out[1])
            if got != want:
                res.violation("include-expansion-differs-from-substitution", case, core.first_diff(want, got), None)
            # mechanism: exactly the tree's files, at their expected absolute paths
            res.count("open_event_checks")
            exp = expected_opens(root, rootdir, [os.path.abspath(root_path)] if via in ("open",) else [])
            if via == "load":
                exp = expected_opens(root, rootdir, [os.path.abspath(root_path)])
            if set(reads) != set(exp):
                res.violation("files-opened-differ-from-tree", case, {"opened": sorted(set(reads) - set(exp))[:5],
                                                                       "not_opened": sorted(set(exp) - set(reads))[:5],
                                                                       "counts": [len(reads), len(exp)]}, None)
        for dp in made:
            try:
                os.remove(dp)
            except OSError:
                pass
        # expand_includes=False: directives are data and are written back unchanged
        if depth >= 1:
            os.chdir(r.choice(cwds))
            res.count("no_expand_cases")
            # a root whose blocks are opened or closed inside an include file is a different document without expansion (it may
            # not parse, or parse with the directive inside a block that a later block of the same kind replaces) - not judged
            self_contained = all(getattr(e, "range_balanced", False) for e in root.entries if isinstance(e, Inc))
            gated_kv = False
            if self_contained:
                stack = []
                prev = ""
                for e in root.entries:
                    if isinstance(e, Inc):
                        if stack and stack[-1] in ("METADATA", "VALIDATION", "VALUES", "CONNECTIONOPTIONS") and \
                                "include-inside-key-value-block-no-expand" in ctx.gated:
                            gated_kv = True  # listed finding: there the directive is read as a key-value pair (or refused)
                        elif stack and stack[-1] == "QUERYMAP" and prev.upper().startswith("STYLE") and "querymap-style-keyword" in ctx.gated:
                            gated_kv = True  # listed finding: QUERYMAP STYLE <word> followed by any keyword (here: INCLUDE) does not parse
                        elif not stack or stack[-1] in ("PATTERN", "POINTS", "PROJECTION"):
                            self_contained = False  # a directive inside PATTERN / POINTS / PROJECTION is not Mapfile data
                    else:
                        w = e.strip()
                        if w:
                            prev = w
                        if w.upper() == "END":
                            if stack:
                                stack.pop()
                        elif w.isalpha() and w.upper() != "AUTO":
                            stack.append(w.upper())
            try:
                d = mappyfile.open(root_path, expand_includes=False) if self_contained and not gated_kv else None
                if gated_kv and self_contained:
                    res.count("no_expand_gated:listed-finding(include inside a key-value block / behind QUERYMAP STYLE <word>)")
                elif d is None:
                    res.count("no_expand_root_not_self_contained")
            except Exception as ex:
                res.violation("no-expand-self-contained-root-not-loaded", {"via": "open(expand_includes=False)", "root": root_path, "depth": depth,
                              "includes": ninc, "root_text": "\n".join(e.line(rootdir) if isinstance(e, Inc) else e for e in root.entries)[:6000]},
                              f"{type(ex).__name__}: {str(ex)[:300]}", "a dictionary")
                d = None
            if d is not None:
                names = []

                def collect(x):
                    if isinstance(x, dict):
                        for k, v in x.items():
                            if k == "include":
                                names.extend(v if isinstance(v, list) else [v])
                            else:
                                collect(v)
                    elif isinstance(x, list):
                        for v in x:
                            collect(v)
                collect(d)
                want_names = []
                in_kv = False
                kv_gate = "include-inside-key-value-block-no-expand" in ctx.gated
                skip = False
                for e in root.entries:
                    if isinstance(e, Inc):
                        if in_kv and kv_gate:
                            skip = True  # listed finding: the directive becomes a key-value pair
                        want_names.append(os.path.join(rootdir, e.target.rel) if e.style["abs"] else e.target.rel)
                    else:
                        w = e.strip().upper()
                        if w in ("METADATA", "VALIDATION", "VALUES", "CONNECTIONOPTIONS"):
                            in_kv = True
                        elif w == "END" and in_kv:
                            in_kv = False
                if skip:
                    res.count("no_expand_gated:include-inside-key-value-block")
                    d = None
            if d is not None:
                case = {"via": "open(expand_includes=False)", "root": root_path, "depth": depth, "includes": ninc,
                        "root_text": "\n".join(e.line(rootdir) if isinstance(e, Inc) else e for e in root.entries)[:6000]}
                if sorted(names) != sorted(want_names):
                    res.violation("no-expand-loses-or-alters-directive", case, names, want_names)
                else:
                    out_text = mappyfile.dumps(d)
                    for nm in want_names:
                        if f'INCLUDE "{nm}"' not in out_text:
                            res.violation("no-expand-directive-not-written-back", dict(case, out=out_text[:2000]), nm, None)
                            break
        # expand_includes=False on a root that is complete on its own (directives replace whole statements / blocks inside object blocks):
        # the directives are data (kept in order, everything else as if the lines were absent) and are written back
        ents, incs = balanced_cuts(r, lines, r.randint(1, 4))
        if incs:
            res.count("no_expand_cases")
            res.count("no_expand_self_contained_judged")
            rt = "\n".join(e.line(rootdir) if isinstance(e, Inc) else e for e in ents)
            bare = "\n".join(e for e in ents if not isinstance(e, Inc))
            want_names = [os.path.join(rootdir, e.target.rel) if e.style["abs"] else e.target.rel for e in incs]
            by_owner = {}
            for e, nm in zip(incs, want_names):
                by_owner.setdefault(e.owner, []).append(nm)
            want_groups = sorted(tuple(v) for v in by_owner.values())
            case = {"via": "loads(expand_includes=False)", "root": None, "depth": 1, "includes": len(incs), "root_text": rt[:6000]}
            viaf = r.choice(["loads", "open"])
            case["via"] = viaf + "(expand_includes=False)"
            case["root_text"] = rt[:20000]
            try:
                if viaf == "open":
                    fn = os.path.join(rootdir, "noexpand.map")
                    with open(fn, "w", encoding="utf-8", newline="") as fh:
                        fh.write(rt)
                    d = mappyfile.open(fn, expand_includes=False)
                else:
                    d = mappyfile.loads(rt, expand_includes=False)
                ref = eng.loads(bare)
            except Exception as ex:
                res.violation("no-expand-self-contained-root-not-loaded", case, f"{type(ex).__name__}: {str(ex)[:300]}", "a dictionary")
                d = None
            if d is not None:
                names = []
                groups = []

                def strip_inc(x):
                    if isinstance(x, dict):
                        o = {}
                        for k, v in x.items():
                            if k == "include":
                                names.extend(v if isinstance(v, list) else [v])
                                groups.append(tuple(v) if isinstance(v, list) else (v,))
                            else:
                                o[k] = strip_inc(v)
                        return o
                    if isinstance(x, list):
                        return [strip_inc(v) for v in x]
                    return x
                rest = core.plain(strip_inc(d))
                got_groups = sorted(groups)
                groups = []
                from .. import relations
                printable = not (relations.contains_quote(d, '"') or relations.has_backslash(d))
                # each object keeps its own directives, in the order written
                if got_groups != want_groups:
                    res.violation("no-expand-loses-or-alters-directive", case, got_groups, want_groups)
                elif rest != core.plain(strip_inc(ref)):
                    res.violation("no-expand-changes-other-content", case, core.first_diff(core.plain(strip_inc(ref)), rest), None)
                elif not printable:
                    res.count("no_expand_write_back_skipped:quote-or-backslash-in-a-string")
                else:
                    res.count("no_expand_write_back_judged")
                    try:
                        out_text = mappyfile.dumps(d)
                        back = mappyfile.loads(out_text, expand_includes=False)
                    except Exception as ex:
                        res.violation("no-expand-written-text-not-loadable", case, f"{type(ex).__name__}: {str(ex)[:300]}", None)
                        back = None
                    if back is not None:
                        from .. import reader
                        toks = [t for t in reader.scan(out_text, keep_comments=False)]
                        written = [reader.string_content(toks[i + 1]) for i, t in enumerate(toks[:-1])
                                   if t.kind == "word" and t.text == "INCLUDE" and toks[i + 1].kind in ("dq", "sq")]
                        if written != names:
                            res.violation("no-expand-directive-not-written-back", dict(case, out=out_text[:3000]), written, names)
                        else:
                            import collections
                            from .. import relations
                            diff = relations.roundtrip_equiv(d, back, collections.Counter())
                            if diff:  # (letter case of enumerated words and numeric strings aside: C01's allowed differences)
                                res.violation("no-expand-written-text-loads-differently", dict(case, out=out_text[:3000]), diff, None)
        # missing file
        if depth >= 1 and depth <= 5 and j % 3 == 0:
            victim = r.choice(files[1:])
            vpath = os.path.join(rootdir, victim.rel)
            with open(vpath, "rb") as fh:
                vbytes = fh.read()
            os.remove(vpath)
            res.count("missing_file_cases")
            # a file of that relative name exists in the current directory: it must not be used instead
            os.chdir(cwds[0])
            dp = os.path.join(cwds[0], victim.rel)
            if not victim.rel.startswith("/") and j % 2 == 0:
                os.makedirs(os.path.dirname(dp), exist_ok=True)
                with open(dp, "w", encoding="utf-8") as fh:
                    fh.write('NAME "decoy"\n')
            try:
                mappyfile.open(root_path)
                res.violation("missing-include-file-accepted", {"via": "open", "root": root_path, "missing": victim.rel}, "a dictionary", "OSError")
            except OSError:
                res.count("missing_file_oserror")
            except Exception as ex:
                res.violation("missing-include-file-wrong-error", {"via": "open", "root": root_path, "missing": victim.rel},
                              f"{type(ex).__name__}: {str(ex)[:200]}", "an I/O error (OSError)")
            # the file appears again (restored from a backup, written by another process): the same call in the same process now gives
            # the flattened document - a failed call leaves nothing behind
            with open(vpath, "wb") as fh:
                fh.write(vbytes)
            res.count("missing_file_then_restored_cases")
            for via in ("open", "open"):
                try:
                    d2 = mappyfile.open(root_path)
                except Exception as ex:
                    res.violation("include-tree-not-loaded-after-the-missing-file-was-restored", {"via": via, "root": root_path, "restored": victim.rel},
                                  f"{type(ex).__name__}: {str(ex)[:200]}", "same as the flattened text")
                    break
                if core.plain(d2) != want:
                    res.violation("include-expansion-differs-from-substitution", {"via": via, "root": root_path, "restored": victim.rel, "after": "a failed call"},
                                  core.first_diff(want, core.plain(d2)), None)
                    break
        if len(res.samples) < 2 and 1 <= depth <= 3 and ninc <= 4:
            res.sample({"depth": depth, "files": {f.rel: f.eol.join(e.line("<rootdir>") if isinstance(e, Inc) else e for e in f.entries)[:400]
                                                  for f in files}})
        shutil.rmtree(os.path.join(base, f"t{ctx.shard}_{j}"), ignore_errors=True)
    # cycles: self, 2-cycle, 3-cycle
    for k in (1, 2, 3):
        cdir = os.path.join(base, f"cyc{ctx.shard}_{k}")
        os.makedirs(cdir, exist_ok=True)
        names = [f"c{i}.map" for i in range(k)]
        for i, nm in enumerate(names):
            nxt = names[(i + 1) % k]
            body = f'INCLUDE "{nxt}"\n' if i else f'MAP\nNAME "cyc"\nINCLUDE "{nxt if k > 1 else names[0]}"\nEND\n'
            if k == 1:
                body = f'MAP\nINCLUDE "{names[0]}"\nEND\n'
            with open(os.path.join(cdir, nm), "w") as fh:
                fh.write(body)
        res.count("depth_boundary_cases")
        res.count("cycle_cases")
        try:
            mappyfile.open(os.path.join(cdir, names[0]))
            res.violation("cyclic-include-accepted", {"via": "open", "cycle": k}, "a dictionary", "an error")
        except RecursionError:
            res.violation("cyclic-include-exhausts-recursion", {"via": "open", "cycle": k}, "RecursionError", "a bounded error")
        except Exception as ex:
            res.count("cycle_refused:" + type(ex).__name__)


def replay(ctx, v):
    print("C15 replay: the include tree of the violation is recorded in the replay file (case.files / case.flat); "
          "re-running the tier with the same VERIF_SEED regenerates it deterministically.")
    base = tempfile.mkdtemp(prefix="mf-c15-")
    try:
        _run(ctx, base)
    finally:
        shutil.rmtree(base, ignore_errors=True)
