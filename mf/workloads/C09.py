"""C09 - version-aware validation follows minVersion / maxVersion.

Deciding monitors: (1) exhaustive sweep: every annotated schema entry x parent context x versions at / just below / just
above each bound (and no version) judged against an independent verdict (own $ref inlining + own recursive pruning, then
the jsonschema evaluator); (2) icontract postcondition on the real Validator.get_versioned_schema comparing the returned
tree with the independently pruned schema along every block path; (3) history relation: random call sequences on ONE
Validator vs a fresh Validator per call (validate with/without version, schema export).
"""
from __future__ import annotations

import copy
import hashlib
import json

from .. import core, gen, render, schemamodel, vocab
from ..engine import Engine
from ..mon import contracts

RULE = ("all annotated schema entries (keywords, value alternatives, the connectionoptions object) x every parent chain from MAP and the "
        "type as root x versions {none, bound-0.1, bound, bound+0.1 for each own bound, and every distinct bound of the schemas}: a "
        "minimal valid document using the entry is validated and compared with the independent verdict (exhaustive); random histories "
        "of validate / schema-export calls on one Validator vs fresh objects; distinct = distinct (entry, context, version)")
EVAL_KEY = "evaluations"
DISTINCT_KEY = "cases"
EXHAUSTIVE = True
NSHARDS = {"quick": 8, "thorough": 16}
TIMEOUT = {"quick": 1500, "thorough": 7200}
FLOORS = {"quick": {"sweep_validations": 2500, "distinct:entries": 100, "schema_contract_evals": 60, "history_steps": 300,
                    "accepted_in_range": 500, "rejected_out_of_range": 200, "sweep_validations_of_root_lists": 800},
          "thorough": {"sweep_validations": 2500, "distinct:entries": 100, "schema_contract_evals": 300, "history_steps": 15000,
                       "accepted_in_range": 500, "rejected_out_of_range": 200, "sweep_validations_of_root_lists": 800}}
ASSUMPTIONS = ["expected verdict = own pruning (keep iff minVersion <= v <= maxVersion, dicts and lists, every depth) of the own-inlined "
               "schema + the jsonschema evaluator - not range arithmetic, because a value may match a sibling alternative that is in range",
               "exported schemas are compared as JSON values (pure-Python encoder; jsonref proxies defeat the C encoder)"]
DOMAIN = ["entries whose keyword cannot be written in Mapfile text as the schema describes it (LABEL BACKGROUNDSHADOWSIZE) are skipped and reported",
          "versions are positive floats (validate treats a falsy version as 'no version')"]

VIOL = []


class ContractBroken(Exception):
    pass


def h(*a):
    return hashlib.sha1(repr(a).encode()).hexdigest()[:12]


def names(msgs):
    return sorted(m["message"].replace("ERROR: Invalid value in ", "") for m in msgs)


# ------------------------------------------------------------------------------------------------
# (2) contract on get_versioned_schema


def compare_trees(real, mine, path, out, depth=0):
    """Compare the real versioned schema with the independently pruned one along block paths."""
    if depth > 12:
        return
    rp = real.get("properties") if hasattr(real, "get") else None
    mp = mine.get("properties")
    if rp is None or mp is None:
        return
    rk, mk = set(rp.keys()), set(mp.keys())
    if rk != mk:
        out.append((path, "properties", sorted(rk - mk), sorted(mk - rk)))
    for k in rk & mk:
        rv, mv = rp[k], mp[k]
        for comb in ("oneOf", "anyOf", "allOf"):
            if comb in mv or (hasattr(rv, "get") and comb in rv):
                rl = list(rv.get(comb, [])) if hasattr(rv, "get") else []
                ml = mv.get(comb, [])
                if len(rl) != len(ml):
                    out.append((f"{path}.{k}", comb, len(rl), len(ml)))
        if not hasattr(rv, "get"):
            continue
        if mv.get("type") == "object" and "properties" in mv and "__type__" in mv["properties"]:
            compare_trees(rv, mv, f"{path}.{k}", out, depth + 1)
        elif mv.get("type") == "array" and isinstance(mv.get("items"), dict) and "__type__" in mv["items"].get("properties", {}):
            ri = rv.get("items")
            if ri is not None:
                compare_trees(ri, mv["items"], f"{path}.{k}[]", out, depth + 1)


def post_versioned(version, schema_name, result):
    contracts.bump("get_versioned_schema")
    mine = vocab.inlined(schema_name)
    if version:
        mine = schemamodel.prune(mine, version)
    out = []
    compare_trees(result, mine, schema_name, out)
    for o in out[:5]:
        VIOL.append(({"version": version, "schema": schema_name}, o))
    return True


def attach():
    import icontract
    from mappyfile.validator import Validator

    if getattr(Validator, "_mf_c09", False):
        return
    Validator.get_versioned_schema = icontract.ensure(post_versioned, error=ContractBroken)(Validator.get_versioned_schema)
    Validator._mf_c09 = True


def flush(res):
    for case, o in VIOL:
        path, what, a, b = o
        res.violation("versioned-schema-differs-from-independent-pruning", dict(case, path=path, what=what),
                      {"real_only_or_len": a}, {"independent_only_or_len": b})
    VIOL.clear()


# ------------------------------------------------------------------------------------------------
# (1) the sweep


def chains(t, seen=()):
    out = [[t]] if t == "map" else []
    for (p, k, mode) in vocab.parents_of(t):
        if p in seen or p == "symbolset" or (k == "symbol" and mode == "single"):
            continue
        for c in chains(p, seen + (t,)):
            out.append(c + [t])
    return out


def entries():
    out = []
    for t in vocab.object_types():
        for k, p in vocab.props(t).items():
            if k.startswith("__"):
                continue
            if p.lo is not None or p.hi is not None:
                out.append((t, k, None, p.lo, p.hi))
            for i, a in enumerate(p.alts):
                if (a.lo, a.hi) != (p.lo, p.hi):
                    out.append((t, k, i, a.lo, a.hi))
    return out


def required_items(r, t):
    items = []
    for req in vocab.required(t):
        p = vocab.prop(t, req)
        alts = gen.writable_alts(p)
        items.append(gen.make_item(p, alts[0], r))
    return items


def build(r, chain, t, k, ai):
    """Nested document: chain of parent blocks down to type t, which uses keyword k (alternative ai)."""
    p = vocab.prop(t, k)
    if ai is None:
        alts = [i for i, a in enumerate(p.alts) if a.kind != "hidden" and
                not ((t, k) in gen.UNWRITABLE or (a.kind == "block" and (t, k + ":block") in gen.UNWRITABLE))]
        if not alts:
            return None
        ai = alts[0]
    a = p.alts[ai]
    if (t, k) in gen.UNWRITABLE or (a.kind == "block" and (t, k + ":block") in gen.UNWRITABLE):
        return None
    node, it = gen.vocab_doc(r, t, k, ai, "only")
    node.items = required_items(r, t) + [x for x in node.items if x.key not in vocab.required(t)] if k not in vocab.required(t) else node.items
    cur = node
    for parent_t in reversed(chain[:-1]):
        key = next(kk for kk, (c, mode) in vocab.child_slots(parent_t).items() if c == cur.type and not (kk == "symbol" and mode == "single"))
        pn = gen.Node(parent_t, required_items(r, parent_t) + [gen.Item("block", key, shape="block", node=cur)])
        cur.parent = pn
        cur = pn
    return cur


def versions_for(lo, hi, bounds):
    vs = {None}
    for b in (lo, hi):
        if b is not None:
            vs.update({round(b - 0.1, 2), round(b - 0.04, 2), float(b), round(b + 0.04, 2), round(b + 0.1, 2)})
    vs.update(bounds)
    return sorted(vs, key=lambda x: (x is not None, x))


def sweep(ctx, eng):
    from mappyfile.validator import Validator

    res = ctx.res
    r = ctx.rng("c09-sweep")
    bounds = vocab.version_bounds()
    v = Validator()
    idx = 0
    for (t, k, ai, lo, hi) in entries():
        ctxs = [[t]] + [c for c in chains(t) if len(c) > 1]
        for chain in ctxs:
            idx += 1
            if not ctx.mine(idx):
                continue
            root = build(r, chain, t, k, ai)
            if root is None:
                res.seen("entries-skipped-unwritable", f"{t}.{k}")
                continue
            gen.apply_gates(root, ctx.gated)
            text = render.render([root]).text
            try:
                d = eng.loads(text)
            except Exception as ex:
                res.count("sweep_doc_not_parseable(C19 decides)")
                continue
            entry = f"{t}.{k}" + (f"#alt{ai}:{vocab.prop(t, k).alts[ai].kind}" if ai is not None else "")
            res.seen("entries", entry)
            res.seen("contexts", ">".join(chain))
            for ver in versions_for(lo, hi, bounds):
                case = {"part": "sweep", "entry": entry, "context": ">".join(chain), "version": ver, "bounds": [lo, hi], "text": text}
                res.count("sweep_validations")
                res.seen("cases", h(entry, chain, ver))
                try:
                    msgs = v.validate(copy.deepcopy(d), schema_name=chain[0], version=ver)
                except ContractBroken:
                    raise
                except Exception as ex:
                    res.violation("validate-raises-with-version", case, f"{type(ex).__name__}: {str(ex)[:200]}", None)
                    continue
                flush(res)
                mine = schemamodel.errors(d, chain[0], ver)
                want = sorted(n for _, n, _ in schemamodel.error_targets(d, mine))
                if bool(msgs) != bool(mine):
                    fresh = Validator().validate(copy.deepcopy(d), schema_name=chain[0], version=ver)
                    kind = "version-verdict-differs-from-independent-pruning" if bool(fresh) == bool(msgs) else "version-verdict-depends-on-history"
                    res.violation(kind, case, {"messages": names(msgs)[:5]}, {"independent": want[:5], "in_range": in_range(lo, hi, ver)})
                elif names(msgs) != want:
                    res.violation("version-messages-differ-from-independent-pruning", case, names(msgs)[:6], want[:6])
                if (idx + len(want)) % 3 == 0:
                    # the same object twice as a LIST of roots (what loads gives for a text with several root blocks): each is judged
                    res.count("sweep_validations_of_root_lists")
                    try:
                        lm = v.validate([copy.deepcopy(d), copy.deepcopy(d)], schema_name=chain[0], version=ver)
                        flush(res)
                        if names(lm) != sorted(want + want):
                            res.violation("version-verdict-differs-for-a-list-of-roots", dict(case, part="sweep-list"), names(lm)[:6],
                                          sorted(want + want)[:6])
                    except ContractBroken:
                        raise
                    except Exception as ex:
                        res.violation("validate-raises-with-version", dict(case, part="sweep-list"), f"{type(ex).__name__}: {str(ex)[:200]}", None)
                if mine:
                    res.count("rejected_out_of_range" if not in_range(lo, hi, ver) else "rejected_in_range(sibling/other)")
                else:
                    res.count("accepted_in_range" if in_range(lo, hi, ver) else "accepted_out_of_range(matches a sibling alternative)")
                    if not in_range(lo, hi, ver):
                        res.seen("non-discriminating-entries", entry)
            if len(res.samples) < 2 and len(text) < 300 and len(chain) > 1:
                res.sample({"entry": entry, "bounds": [lo, hi], "context": ">".join(chain), "text": text})


def in_range(lo, hi, ver):
    if ver is None:
        return True
    return (lo is None or ver >= lo) and (hi is None or ver <= hi)


# ------------------------------------------------------------------------------------------------
# (3) histories on one Validator


def to_json(x):
    return json.loads(json.dumps(x, indent=1, sort_keys=True))


def histories(ctx, eng):
    from mappyfile.validator import Validator

    res = ctx.res
    r = ctx.rng("c09-hist")
    bounds = vocab.version_bounds()
    docs = []
    ents = entries()
    for _ in range(12):
        t, k, ai, lo, hi = r.choice(ents)
        c = r.choice([[t]] + [c for c in chains(t) if len(c) > 1])
        root = build(r, c, t, k, ai)
        if root is None:
            continue
        gen.apply_gates(root, ctx.gated)
        try:
            docs.append((c[0], eng.loads(render.render([root]).text)))
        except Exception:
            pass
    nh = ctx.n(24, 1000)
    for hi_ in range(nh):
        v = Validator()
        prev = "start"
        for step in range(r.randint(5, 40)):
            op = r.choice(["validate-v", "validate-v", "validate", "export-v", "export", "expanded", "validate-v", "export-v"])
            if r.random() < 0.25:
                # calls whose own answer is not judged here, made for what they may leave behind on the Validator: the expanded
                # (un-pruned) schema asked for WITH a version, and a call that fails because the version is given as text
                side = r.choice(["expanded-with-version", "version-as-text"])
                sv = r.choice(bounds + [round(b - 0.04, 2) for b in bounds])
                sname = r.choice(docs)[0]
                try:
                    if side == "expanded-with-version":
                        v.get_expanded_schema(sname, sv)
                    else:
                        v.validate(copy.deepcopy(r.choice([x for x in docs if x[0] == sname])[1]), schema_name=sname, version=str(sv))
                except ContractBroken:
                    raise
                except Exception:
                    res.count("history_side_calls_raised")
                flush(res)
                res.count("history_side_calls")
                prev = side
                if r.random() < 0.7:
                    ver0, name0 = sv, sname  # ... and the next judged call asks for exactly that version and schema
                else:
                    ver0 = name0 = None
            else:
                ver0 = name0 = None
            ver = r.choice(bounds + [round(b + 0.1, 2) for b in bounds[:4]] + [round(b - 0.04, 2) for b in bounds] + [round(b + 0.04, 2) for b in bounds])
            if float(ver).is_integer() and r.random() < 0.5:
                ver = int(ver)  # the same version given as an int (7 and 7.0 are one version, spelled "7" and "7.0")
            name, d = r.choice(docs)
            if ver0 is not None:
                ver = ver0
                name, d = r.choice([x for x in docs if x[0] == name0])
            case = {"part": "history", "history": hi_, "step": step, "op": op, "version": ver, "schema": name, "previous": prev}
            res.count("history_steps")
            res.seen("call-pairs", f"{prev}->{op}")
            res.seen("cases", h("hist", ctx.shard, hi_, step))
            try:
                if op == "validate-v":
                    got = names(v.validate(copy.deepcopy(d), schema_name=name, version=ver))
                    want = names(Validator().validate(copy.deepcopy(d), schema_name=name, version=ver))
                elif op == "validate":
                    got = names(v.validate(copy.deepcopy(d), schema_name=name))
                    want = names(Validator().validate(copy.deepcopy(d), schema_name=name))
                elif op == "export-v":
                    got = h(to_json(v.get_versioned_schema(ver, name)))
                    want = h(to_json(Validator().get_versioned_schema(ver, name)))
                elif op == "export":
                    got = h(to_json(v.get_versioned_schema(None, name)))
                    want = h(to_json(Validator().get_versioned_schema(None, name)))
                else:
                    got = h(to_json(v.get_expanded_schema(name)))
                    want = h(to_json(Validator().get_expanded_schema(name)))
            except ContractBroken:
                raise
            except Exception as ex:
                res.violation("history-call-raises", case, f"{type(ex).__name__}: {str(ex)[:200]}", None)
                continue
            flush(res)
            if got != want:
                res.violation("answer-depends-on-earlier-calls", case, got, want)
            prev = op
        res.count("histories")
    # the public function (fresh Validator inside): the version given by position and by keyword is the version that is applied
    if ctx.shard == 1 % ctx.nshards:
        import mappyfile
        for name, d in [x for x in docs if x[0] == "map"][:6]:
            for ver in bounds + [round(b - 0.04, 2) for b in bounds]:
                want = names(Validator().validate(copy.deepcopy(d), schema_name="map", version=ver))
                for how, got in (("positional", lambda: mappyfile.validate(copy.deepcopy(d), ver)), ("keyword", lambda: mappyfile.validate(copy.deepcopy(d), version=ver))):
                    res.count("public_validate_version_calls")
                    try:
                        g = names(got())
                    except Exception as ex:
                        res.violation("history-call-raises", {"part": "public-validate", "version": ver, "how": how}, f"{type(ex).__name__}: {str(ex)[:200]}", None)
                        continue
                    if g != want:
                        res.violation("public-validate-ignores-or-misreads-the-version", {"part": "public-validate", "version": ver, "how": how,
                                                                                         "schema": "map"}, g, want)
    # one version, two spellings: every integer-valued bound asked as a float and as an int on ONE Validator, in both orders
    if ctx.shard == 0:
        for b in [x for x in bounds if float(x).is_integer()]:
            for order in ((float(b), int(b)), (int(b), float(b))):
                v = Validator()
                for i, ver in enumerate(order):
                    for name, d in docs[:4] + [("map", None)]:
                        case = {"part": "history", "history": "spellings", "step": i, "op": "export-v" if d is None else "validate-v", "version": repr(ver),
                                "schema": name, "previous": repr(order[0]) if i else "start"}
                        res.count("version_spelling_steps")
                        try:
                            if d is None:
                                got = h(to_json(v.get_versioned_schema(ver, name)))
                                want = h(to_json(Validator().get_versioned_schema(ver, name)))
                            else:
                                got = names(v.validate(copy.deepcopy(d), schema_name=name, version=ver))
                                want = names(Validator().validate(copy.deepcopy(d), schema_name=name, version=ver))
                        except Exception as ex:
                            res.violation("history-call-raises", case, f"{type(ex).__name__}: {str(ex)[:200]}", None)
                            continue
                        if got != want:
                            res.violation("answer-depends-on-earlier-calls", case, got, want)


def run(ctx):
    attach()
    eng = Engine(public_every=0)
    sweep(ctx, eng)
    histories(ctx, eng)
    ctx.res.count("schema_contract_evals", contracts.EVALS.get("get_versioned_schema", 0))
    ctx.res.count("evaluations", ctx.res.counters["sweep_validations"] + ctx.res.counters["history_steps"])


def replay(ctx, v):
    attach()
    eng = Engine(public_every=0)
    case = v["case"]
    if case.get("part") == "sweep":
        from mappyfile.validator import Validator
        d = eng.loads(case["text"])
        root = case["context"].split(">")[0]
        msgs = Validator().validate(d, schema_name=root, version=case["version"])
        mine = schemamodel.errors(d, root, case["version"])
        print("messages:", names(msgs), "independent:", [e.message[:80] for e in mine])
        if bool(msgs) != bool(mine):
            ctx.res.violation("version-verdict-differs-from-independent-pruning", case, names(msgs), [e.message[:80] for e in mine])
        flush(ctx.res)
    else:
        run(ctx)
