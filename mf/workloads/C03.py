"""C03 - pretty-printed text says exactly what the dictionary says.

Deciding monitor: icontract postcondition on the real PrettyPrinter.pprint (mf/mon/pprint_contract.py): the
returned text is read by an independent scanner and walked in lock-step with the dictionary (mf/printcheck.py).
Workload: dictionaries built directly from the schema vocabulary, generated/loaded documents, corpus files and
edit histories through the dict API, printed through dumps / dump / save.
"""
from __future__ import annotations

import copy
import hashlib
import io
import json
import os
import tempfile

from .. import core, corpus, edits, engine, expect, gen, render, vocab
from ..mon import contracts, pprint_contract as PC

RULE = ("dictionaries over every (object, keyword, value alternative) built directly from the schema vocabulary, random generated "
        "and loaded documents, corpus files, and dictionaries reached by 1-30 dict-API edits (set/replace/delete keyword, "
        "insert/remove/reorder children, update(), snippet assignment, reads of missing keys, find/findall); each dumps/dump/save "
        "result is judged by the contract on pprint; a sample of the same dictionaries (every refused one first) is printed again by "
        "interpreters started with -O and -OO and must give the same text or the same refusal; distinct = distinct (dictionary fingerprint, option set); non-trivial = the "
        "contract's precondition held and at least one value was compared")
EVAL_KEY = "contract_evals"
DISTINCT_KEY = "cases"
NSHARDS = {"quick": 8, "thorough": 16}
FLOORS = {"quick": {"contract_judged": 3000, "values_checked": 20000, "histories": 250, "histories_with_missing_read": 40,
                    "distinct:classes": 200, "optimised_interpreter_prints": 400, "optimised_interpreter_refusals_expected": 200},
          "thorough": {"contract_judged": 35000, "values_checked": 400000, "histories": 15000,
                       "histories_with_missing_read": 2000, "distinct:classes": 210, "optimised_interpreter_prints": 1500,
                       "optimised_interpreter_refusals_expected": 600}}
ASSUMPTIONS = ["mf/reader.py scans text the way MapServer's lexer classes do (# starts a comment outside strings)",
               "the lexical class required for a value is decided with mf/vocab.py and is two-sided only where the statement is unambiguous"]
DOMAIN = gen.DOMAIN + ["precondition of the contract (counted as skipped when false): every object carries a __type__ naming a schema, "
                       "every keyword is known to that schema, no string contains the output quote character, a backslash or CR, "
                       "and newlinechar contains a line break whenever comments are emitted"]


def h(*a):
    return hashlib.sha1(json.dumps(a, default=str).encode()).hexdigest()[:12]


class Driver:
    def __init__(self, ctx):
        PC.attach()
        self.ctx = ctx
        self.res = ctx.res
        self.eng = engine.Engine(public_every=0)
        self.r = ctx.rng("c03")
        self.tmpdir = tempfile.mkdtemp(prefix="mf-c03-")
        self.n = 0
        self.optcases = []   # (canonical dictionary, options) kept for the interpreter-option phase
        if ctx.shard % 2 == 1:
            # what a process may well have done before it prints anything: validated and created objects for particular MapServer
            # versions (the printer's reading of the schemas must not depend on it)
            import mappyfile
            for v in vocab.version_bounds()[:: max(1, len(vocab.version_bounds()) // 4)] + [4.0, 8.4]:
                try:
                    mappyfile.validate(mappyfile.loads('MAP NAME "x" END'), version=v)
                    for t in vocab.object_types():
                        mappyfile.create(t, version=v)
                    ctx.res.count("versioned_calls_before_first_print")
                except Exception as ex:
                    ctx.res.count("versioned_warmup_raised:" + type(ex).__name__)

    def close(self):
        import shutil

        shutil.rmtree(self.tmpdir, ignore_errors=True)

    def emit(self, d, opts, label, expect_refusal=False, extra=None):
        """Print d through dumps / dump / save in rotation and judge what the contract observed."""
        import mappyfile

        res = self.res
        self.n += 1
        if self.n % 3 == 0 and isinstance(d, (dict, list)):
            # keys of the form __name__ are never printed, whatever their name or value
            objs = list(edits.objects(d))
            for path, o in self.r.sample(objs, min(len(objs), 2)):
                try:
                    o[self.r.choice(["__note__", "__x__", "__extra__", "__id__"])] = self.r.choice([1, "hidden text", ["a", 1], {"k": "v"}])
                    res.count("hidden_keys_added")
                except Exception:
                    pass
            # ... and the same inside the key-value containers (METADATA, VALIDATION, VALUES, CONNECTIONOPTIONS, CONFIG)
            kvs = [v for _, o in objs for k, v in o.items() if isinstance(v, dict) and (k == "config" or k in vocab.kv_keys())]
            for kv in self.r.sample(kvs, min(len(kvs), 2)):
                try:
                    # (not __comments__ / __position__: those names are the library's own bookkeeping and have a fixed shape)
                    kv[self.r.choice(["__note__", "__x__", "__extra__"])] = self.r.choice(["hidden text", "1"])
                    res.count("hidden_keys_added_in_key_value_blocks")
                except Exception:
                    pass
        via = ("dumps", "printer", "dump", "save")[self.n % 4]
        PC.take()
        from .C16 import flip_quote
        opts = flip_quote(d, opts)
        case = {"workload": label, "via": via, "options": opts, "dict": core.canon(d)}
        if extra:
            case.update(extra)
        try:
            if via == "dumps":
                out = mappyfile.dumps(d, **opts)
            elif via == "printer":
                out = self.eng.printer(**opts).pprint(d)
            elif via == "dump":
                buf = io.StringIO()
                mappyfile.dump(d, buf, **opts)
                out = buf.getvalue()
            else:
                fn = os.path.join(self.tmpdir, "out.map")
                mappyfile.save(d, fn, **opts)
                with open(fn, encoding="utf-8", newline="") as f:
                    out = f.read()
            raised = None
        except Exception as ex:
            raised = ex
            out = None
        res.count("via:" + via)
        reps = PC.take()
        if (raised is not None and sum(1 for c in self.optcases if c[2]) < 40) or (raised is None and self.n % 25 == 0 and len(self.optcases) < 160):
            self.optcases.append((case["dict"], opts, raised is not None))
        if raised is not None:
            res.count("dumps_raised")
            if expect_refusal:
                res.count("unrepresentable_refused")
            else:
                pc = __import__("mf.printcheck", fromlist=["x"])
                if pc.unrepresentable(d) or pc.any_typeless(d):
                    res.count("unrepresentable_refused")
                else:
                    res.violation("dumps-raises-on-representable-dictionary", case, f"{type(raised).__name__}: {str(raised)[:300]}",
                                  "text")
            return None
        if not reps:
            res.inconclusive_because("pprint contract was not evaluated for a dumps call")
            return out
        for rep, result, o in reps:
            res.count("contract_evals")
            if result != out:
                res.violation("front-end-text-differs-from-pprint-result", case, out[:300], result[:300])
            if rep.skipped:
                res.count("skipped_precondition")
                res.count("skipped:" + rep.skipped.split(":")[0][:60])
                continue
            res.count("contract_judged")
            res.count("values_checked", rep.stats.get("values_checked", 0))
            res.count("objects_checked", rep.stats.get("objects", 0))
            for c in rep.classes:
                res.seen("classes", c)
            if rep.stats.get("values_checked", 0):
                res.seen("cases", h(case["dict"], opts))
            for kind, detail in rep.content:
                res.violation(kind, dict(case, text=result[:4000]), detail, "text that says exactly what the dictionary says")
        return out

    def opts(self):
        r = self.r
        o = dict(indent=r.choice([0, 2, 4]), spacer=r.choice([" ", " ", "\t"]), quote=r.choice(['"', '"', "'"]),
                 newlinechar=r.choice(["\n", "\n", "\r\n", " "]), end_comment=r.random() < 0.3, align_values=r.random() < 0.3)
        if o["newlinechar"] == " ":
            o["end_comment"] = False
        return o


def run(ctx):
    drv = Driver(ctx)
    try:
        _run(ctx, drv)
    finally:
        drv.close()


def _run(ctx, drv):
    res = ctx.res
    r = drv.r
    gopts = gen.GenOpts(gated=ctx.gated)
    # ---- (1) vocabulary dictionaries built directly (no parser involved)
    for i, (o, k, ai) in enumerate(gen.vocab_slots()):
        if not ctx.mine(i):
            continue
        p = vocab.prop(o, k)
        a = p.alts[ai]
        if (o, k) in gen.UNWRITABLE or (a.kind == "block" and (o, k + ":block") in gen.UNWRITABLE):
            continue
        members = a.info["members"] if a.kind == "enum" and k != "projection" else [None]
        for m in members:
            for case in (("upper", "lower", "title", "mixed") if isinstance(m, str) else (None,)):
                node, it = gen.vocab_doc(r, o, k, ai, "middle", member=m, enum_case=case)
                for mk in (edits.mkdict, dict):
                    d = expect.build_doc([node], mk)
                    drv.emit(d, drv.opts(), "vocab", extra={"slot": f"{o}.{k}:{a.kind}" + (f"={it.value}" if m is not None else "")})
    # ---- (1b) the same string under different keywords: an enumerated word of one keyword is free text for another; the lexical
    #      class must follow the keyword, in either print order, within one dumps call and on a reused printer
    hosts = [("class", "text"), ("class", "expression"), ("cluster", "group"), ("layer", "filter"), ("label", "text")]
    hosts = [(o, k) for o, k in hosts if vocab.prop(o, k) is not None]
    pi = 0
    for o in vocab.object_types():
        for k, p in vocab.props(o).items():
            if len(p.alts) < 2 or k == "projection":
                continue
            for a in p.alts:
                if a.kind != "enum":
                    continue
                for m in a.info["members"]:
                    if not isinstance(m, str) or (o, k) in gen.QUOTED_ENUM or (o, k, m.lower()) in gen.QUOTED_ENUM_MEMBERS:
                        continue
                    pi += 1
                    if not ctx.mine(pi):
                        continue
                    ho, hk = hosts[pi % len(hosts)]
                    if m.lower() in vocab.prop(ho, hk).enum_members_lower():
                        continue
                    for word in (m, m.upper()):
                        enum_obj = edits.mkdict()
                        enum_obj["__type__"] = o
                        for req in vocab.required(o):
                            enum_obj[req] = expect.item_value(gen.make_item(vocab.prop(o, req), gen.writable_alts(vocab.prop(o, req))[0], r), edits.mkdict)
                        enum_obj[k] = word
                        text_obj = edits.mkdict()
                        text_obj["__type__"] = ho
                        for req in vocab.required(ho):
                            text_obj[req] = expect.item_value(gen.make_item(vocab.prop(ho, req), gen.writable_alts(vocab.prop(ho, req))[0], r), edits.mkdict)
                        text_obj[hk] = word
                        for order in ([enum_obj, text_obj], [text_obj, enum_obj]):
                            res.count("same_string_two_keywords")
                            drv.emit(copy.deepcopy(order), dict(drv.opts(), newlinechar="\n"), "same-string",
                                     extra={"slot": f"{o}.{k}:enum={word} + {ho}.{hk}:string"})
    # ---- (2) generated dictionaries, loaded documents, corpus
    n = ctx.n(1200, 14000)
    for j in range(n):
        nodes = gen.gen_document(r, gen.GenOpts(gated=ctx.gated, p_key=r.choice([0.2, 0.4]), dup=0.0))
        if j % 2:
            d = expect.build_doc(nodes, edits.mkdict)
            label = "gen-built"
        else:
            d = drv.eng.loads(render.render(nodes, render.surfaces(r, 1)[0], r).text, include_comments=(j % 4 == 0),
                              include_position=(j % 8 == 0))
            label = "gen-loaded"
        out = drv.emit(d, drv.opts(), label)
        if out and len(res.samples) < 2 and 200 < len(out) < 900:
            res.sample({"workload": label, "text": out})
    for path, text in corpus.texts(ctx):
        try:
            d = drv.eng.loads(text, include_comments=r.random() < 0.3)
        except Exception:
            continue
        o = drv.opts()
        if o["newlinechar"] == " ":
            o["newlinechar"] = "\n"
        drv.emit(d, o, "corpus", extra={"file": corpus.rel(path)})
    # ---- (3) edit histories
    nh = ctx.n(900, 22000)
    corpus_files = [p for p, _ in corpus.texts(ctx)]
    for j in range(nh):
        src = r.random()
        try:
            if src < 0.6:
                nodes = [gen.gen_node(r, r.choice(["map", "layer", "class", "map", "layer", "style", "label"]),
                                      gen.GenOpts(gated=ctx.gated, p_key=0.2, dup=0.0, max_objects=15))]
                start = expect.build_doc(nodes, edits.mkdict)
            elif src < 0.9 or not corpus_files:
                nodes = gen.gen_document(r, gen.GenOpts(gated=ctx.gated, p_key=0.2, dup=0.0, max_objects=15))
                start = drv.eng.loads(render.render(nodes).text)
            else:
                start = drv.eng.loads(corpus.read(r.choice(corpus_files)))
        except Exception as ex:
            res.count(("history_start_not_accepted(generated; C02 decides):" if src < 0.9 else "history_start_not_accepted(corpus file):") + type(ex).__name__)
            continue
        if isinstance(start, list):
            start = start[0]
        root, ops, feats = edits.gen_history(r, start, r.randint(1, 30), gated=ctx.gated)
        res.count("histories")
        for op in ops:
            if op[0] == "snippet-not-loadable":
                res.violation("generated-snippet-not-accepted-by-loads", {"text": op[1], "dict": None, "options": None}, op[2], "a dictionary")
        res.count("history_ops", len(ops))
        for f in feats:
            res.seen("edit-kinds", f)
            res.count("edit:" + f)
        from ..printcheck import unrepresentable
        bad = unrepresentable(root)
        missing_read = any(f.startswith("read-missing") for f in feats)
        if missing_read:
            res.count("histories_with_missing_read")
        if bad:
            res.count("histories_ending_unrepresentable")
        for _ in range(3):
            o = drv.opts()
            drv.emit(copy.deepcopy(root) if o.get("x") else root, o, "history", expect_refusal=bool(bad),
                     extra={"ops": ops[-12:]})

    # ---- (4) thorough: the repository's own test-suite under the contract (about 250 hand-written call contexts)
    if not ctx.quick and ctx.shard == 0:
        from .. import suite
        data, tail = suite.run_suite()
        if data is None:
            res.inconclusive_because("repository test-suite under contracts did not finish: " + str(tail)[-200:])
        else:
            res.count("suite_tests", data["tests"])
            res.count("suite_pprint_judged", data["pprint_judged"])
            for x in data["content"]:
                res.violation("under-repo-tests:" + x["kind"], {"workload": "repo-suite", "test": x["test"], "text": x["text"], "dict": None,
                                                                 "options": None}, x["detail"], None)
    interpreter_options(ctx, drv)
    res.count("pprint_contract_evals_total", contracts.EVALS.get("pprint", 0))
    res.count("monitor_errors", contracts.EVALS.get("pprint-monitor-error", 0))
    if contracts.EVALS.get("pprint-monitor-error", 0):
        res.inconclusive_because("the pprint monitor itself raised on some outputs")


def interpreter_options(ctx, drv):
    """(5) the same dictionaries printed by interpreters started with -O and -OO (assert statements compiled away): refusals stay
    refusals and texts stay byte-identical to what the default-mode interpreter writes for the same dictionary."""
    import subprocess

    import mappyfile

    res = ctx.res
    cases = [{"dict": c, "options": o} for c, o, _ in drv.optcases]
    if not cases:
        return
    ref = []
    for c in cases:
        try:
            ref.append({"text": mappyfile.dumps(core.decanon(c["dict"]), **c["options"])})
        except Exception as ex:
            ref.append({"raised": type(ex).__name__})
    PC.take()
    fin = os.path.join(drv.tmpdir, "optcases.json")
    with open(fin, "w", encoding="utf-8") as f:
        json.dump(cases, f)
    env = dict(os.environ, PYTHONPATH=core.VERIF, MF_REPO=core.REPO)
    env.pop("PYTHONOPTIMIZE", None)
    for flag in ("-O", "-OO"):
        fout = os.path.join(drv.tmpdir, "optout.json")
        try:
            p = subprocess.run([core.PY, flag, "-m", "mf.optchild", fin, fout], env=env, cwd=core.VERIF, capture_output=True, text=True, timeout=600)
            with open(fout, encoding="utf-8") as f:
                got = json.load(f)
        except Exception as ex:
            res.inconclusive_because(f"interpreter-option child ({flag}) did not finish: {type(ex).__name__}")
            continue
        if got["debug"] or not os.path.realpath(got["mappyfile"]).startswith(os.path.realpath(core.REPO) + os.sep):
            res.inconclusive_because(f"interpreter-option child ({flag}) did not run the repository's tree with assertions off")
            continue
        res.count("optimised_interpreter_runs")
        for c, a, b in zip(cases, ref, got["outcomes"]):
            res.count("optimised_interpreter_prints")
            if "raised" in a:
                res.count("optimised_interpreter_refusals_expected")
            if ("raised" in a) != ("raised" in b):
                res.violation("refusal-depends-on-interpreter-options", {"workload": "interpreter-options", "flag": flag, "dict": c["dict"],
                                                                         "options": c["options"]}, b, a)
            elif "text" in a and a["text"] != b["text"]:
                res.violation("text-depends-on-interpreter-options", {"workload": "interpreter-options", "flag": flag, "dict": c["dict"],
                                                                      "options": c["options"]}, b["text"][:300], a["text"][:300])


def replay(ctx, v):
    drv = Driver(ctx)
    try:
        case = v["case"]
        d = core.decanon(case["dict"])
        if case.get("workload") == "interpreter-options":
            drv.optcases.append((case["dict"], case["options"], True))
            interpreter_options(ctx, drv)
            return
        out = drv.emit(d, case["options"], "replay")
        print(out)
    finally:
        drv.close()
