"""C11 - any input is either parsed or rejected with a parse error, promptly.

Deciding monitors: (1) exception-family contract on the parse boundary (outcome must be a dictionary, a list of
dictionaries or a lark.exceptions.LarkError; syntax errors carry line and column); (2) logical step counter
(sys.monitoring PY_START/PY_RESUME/PY_THROW) and CPU time per call against envelopes calibrated on the corpus in the
same run.  Wall-clock watchdogs only ever yield 'inconclusive'.
"""
from __future__ import annotations

import hashlib
import os
import tempfile
import time

from .. import core, corpus, gen, reader, render, vocab
from ..mon import trace

RULE = ("token-level mutations (delete, duplicate, swap, truncate, splice, shape swaps) of corpus and generated Mapfiles, token soups over "
        "the Mapfile vocabulary, unterminated strings/regexes/comments/brackets, every block type alone at the root, and long "
        "repetitive inputs (operator chains / nesting <= 100); outcome class and logical steps / CPU per input judged against "
        "envelopes calibrated on the corpus in the same run; every sixth input is parsed again with the library's logger at DEBUG / INFO and "
        "a formatting handler attached (same outcome class required); distinct = distinct input text")
EVAL_KEY = "inputs_judged"
DISTINCT_KEY = "inputs"
NSHARDS = {"quick": 8, "thorough": 16}
FLOORS = {"quick": {"inputs_judged": 60000, "outcome:accepted": 5000, "outcome:rejected": 30000, "step_envelope_checks": 60000,
                    "root_block_types_accepted": 19, "long_inputs": 10, "stress_inputs_judged": 400, "syntax_error_positions_checked": 150,
                    "rejected_reruns_with_verbose_logging": 5000},
          "thorough": {"inputs_judged": 800000, "outcome:accepted": 50000, "outcome:rejected": 400000, "step_envelope_checks": 800000,
                       "root_block_types_accepted": 19, "long_inputs": 40, "stress_inputs_judged": 400, "syntax_error_positions_checked": 3000,
                       "rejected_reruns_with_verbose_logging": 60000}}
ASSUMPTIONS = ["the step envelope is A*chars+B with A = 8 x the largest steps/char seen on the corpus in this run (floor 256), B = max(5000, 4 x the largest step count of 20 tiny rejected inputs); "
               "the CPU envelope is C*chars+D with C = 50 x the corpus median per-char cost, D = 50 ms, confirmed by 3 isolated repetitions",
               "bulk inputs go through reused Parser/MapfileToDict objects (same code path as loads); a sample goes through mappyfile.loads"]
DOMAIN = ["expression nesting and operator chains are bounded at 100 (deeper ones may exhaust Python's recursion limit in Lark's visitors)",
          "an I/O error is an accepted outcome only for inputs holding an INCLUDE line that names a file (C15 decides include handling)"]

BLOCKS = ["MAP", "LAYER", "CLASS", "STYLE", "LABEL", "WEB", "LEGEND", "SCALEBAR", "REFERENCE", "QUERYMAP", "OUTPUTFORMAT", "SYMBOL",
          "FEATURE", "GRID", "JOIN", "CLUSTER", "COMPOSITE", "LEADER", "SCALETOKEN"]
KV = ["METADATA", "VALIDATION", "VALUES", "CONNECTIONOPTIONS", "PROJECTION", "POINTS", "PATTERN", "CONFIG", "SYMBOLSET", "END"]
POOLS = {
    "num": ["1", "-5", "2.5", "1e3", "007", "+3", ".5", "1.", "99999999999999999999"],
    "str": ['"s"', "'s'", '""', '"a\nb"', '"it\'s"', "'x\"y'", '"#aabbcc"', "'#abc'", '"abc"i', "`bq`"],
    "word": ["POLYGON", "on", "foo", "x-y", "a:b", "AUTO", "TRUE", "false", "NULL", "HILITE", "é", "a/b.shp", "../x", "--", "name"],
    "bind": ["[a]", "[]", "[a b]", "[1]"],
    "expr": ["([a] = 1)", "(1)", "()", "(\"a\" IN \"b,c\")", "(NOT [a])", "([a] % 2 = 0)", "(f([a],2))", "((1) + (2))"],
    "regex": ["/a/", "/a/i", "//", "\\\\a\\\\"],
    "list": ["{a,b}", "{}", "{a b,c}"],
    "punct": ["(", ")", "[", "]", "{", "}", ",", "/", "%", "`", "\"", "'", "#", "/*", "*/", "\\\\", "!", "=", "~", "NOT", "AND", "OR", "-", "+"],
}


def h(s):
    return hashlib.sha1(s.encode("utf-8", "surrogatepass")).hexdigest()[:12]


class _Sink(__import__("logging").Handler):
    """Formats every record it is given, as a console or file handler would."""
    def __init__(self):
        super().__init__(0)
        self.records = 0

    def emit(self, record):
        self.records += 1
        record.getMessage()


class Judge:
    def __init__(self, ctx):
        import lark
        import mappyfile
        from mappyfile.parser import Parser
        from mappyfile.transformer import MapfileToDict

        self.ctx = ctx
        self.res = ctx.res
        self.lark = lark
        self.mf = mappyfile
        self.p = Parser()  # expand_includes=True, as loads does
        self.m = MapfileToDict()
        self.steps = trace.StepCounter()
        self.steps.start()
        self.A = 256.0
        self.B = 5000
        self.C = None
        self.D = 50e6
        self.ratios = []
        self.cpu_ratios = []
        self.n = 0
        self.sink = _Sink()

    def relogged(self, text, case, out):
        """The same input with the library's logger at DEBUG / INFO and a handler that formats every record (what -vv or an
        application's logging.basicConfig(level=DEBUG) does): the outcome class is the same."""
        import logging

        lg = logging.getLogger("mappyfile")
        old = lg.level
        level = logging.DEBUG if (self.n // 6) % 3 else logging.INFO
        lg.addHandler(self.sink)
        lg.setLevel(level)
        try:
            out2 = self.run_once(text)[0]
        finally:
            lg.setLevel(old)
            lg.removeHandler(self.sink)
        a = "ok" if out[0] == "ok" else type(out[1]).__name__
        b = "ok" if out2[0] == "ok" else type(out2[1]).__name__
        self.res.count("reruns_with_verbose_logging")
        if b != "ok":
            self.res.count("rejected_reruns_with_verbose_logging")
        if a != b:
            self.res.violation("outcome-depends-on-logging-level", dict(case, level=logging.getLevelName(level)),
                               b + ": " + str(out2[1])[:200], a)

    def run_once(self, text):
        s0 = self.steps.n
        t0 = time.thread_time_ns()
        try:
            tree = self.p.parse(text)
            d = self.m.transform(tree)
            out = ("ok", d)
        except BaseException as ex:  # noqa - the class of the exception IS the observation
            out = ("exc", ex)
        return out, self.steps.n - s0, time.thread_time_ns() - t0

    def calibrate(self, texts):
        per = []
        cper = []
        big = [t for t in texts if len(t) >= 2000]
        for t in (big if len(big) >= 10 else texts):
            if len(t) < 200:
                continue
            out, steps, cpu = self.run_once(t)
            per.append(steps / len(t))
            cper.append(cpu / len(t))
        if per:
            self.A = max(256.0, 8 * max(per))
            cper.sort()
            self.C = 50 * cper[len(cper) // 2]
        # constant term: error paths (exception construction, expected-token sets) cost a length-independent number of steps
        small = ["`bq` [] `bq`", "MAP", "END", "(", "\"", "MAP NAME", "x y z", "[", "MAP END END", "/*", "LAYER ( END", "1 2 3", "{", "MAP 'x' END",
                 "NOT", "CLASS EXPRESSION ( END", "STYLE COLOR END", "%", "`", "MAP METADATA x END"]
        worst = max(self.run_once(t)[1] for t in small)
        self.B = max(5000, 4 * worst)
        self.res.maximum("envelope_B_steps", self.B)
        self.res.maximum("calibration_max_steps_per_char", max(per) if per else 0)
        self.res.maximum("envelope_A_steps_per_char", self.A)
        self.res.maximum("envelope_C_ns_per_char", self.C or 0)
        self.res.count("calibration_docs", len(per))

    def judge(self, text, category, depth_ok=True, public=False):
        res = self.res
        self.n += 1
        res.count("inputs_judged")
        res.count("category:" + category)
        res.seen("inputs", h(text))
        case = {"category": category, "text": text if len(text) < 5000 else text[:2000] + f"...[{len(text)} chars]", "len": len(text)}
        if public:
            try:
                d = self.mf.loads(text)
                out = ("ok", d)
            except BaseException as ex:  # noqa
                out = ("exc", ex)
            steps = cpu = None
            res.count("public_loads_calls")
        else:
            out, steps, cpu = self.run_once(text)
        kind, val = out
        if kind == "ok":
            ok = isinstance(val, dict) or (isinstance(val, list) and all(isinstance(x, dict) for x in val))
            res.count("outcome:accepted")
            if not ok:
                res.violation("result-is-not-a-dictionary-or-list-of-dictionaries", case, repr(type(val)), None)
        else:
            ex = val
            name = type(ex).__name__
            if isinstance(ex, self.lark.exceptions.LarkError):
                res.count("outcome:rejected")
                if isinstance(ex, self.lark.exceptions.VisitError):
                    name = f"VisitError({type(ex.orig_exc).__name__})"
                res.seen("exception-classes", name)
                if isinstance(ex, self.lark.exceptions.UnexpectedInput):
                    line, col = getattr(ex, "line", None), getattr(ex, "column", None)
                    if not isinstance(line, int) or not isinstance(col, int) or line < 1 or col < 1:
                        res.violation("syntax-error-without-line-and-column", case, {"type": name, "line": line, "column": col}, None)
            elif isinstance(ex, OSError) and any(l.strip().lower().startswith("include") and len(l.split()) > 1 for l in text.split("\n")):
                res.count("outcome:include-io-error")
            elif isinstance(ex, ValueError) and "nested include" in str(ex):
                res.count("outcome:include-depth-error")
            elif isinstance(ex, RecursionError) and not depth_ok:
                res.count("outcome:recursion-beyond-bound(not judged)")
            elif isinstance(ex, (KeyboardInterrupt, SystemExit, MemoryError)):
                raise ex
            else:
                import traceback
                tb = "".join(traceback.format_exception(type(ex), ex, ex.__traceback__)[-3:])[-600:]
                res.violation("non-lark-exception-escapes:" + name, case, f"{name}: {str(ex)[:200]}", "dict | list | LarkError", where=tb)
        if steps is not None and self.n % 6 == 0 and len(text) < 30000:
            self.relogged(text, case, out)
        if steps is not None:
            res.count("step_envelope_checks")
            n = max(len(text), 1)
            bound = self.A * n + self.B
            res.maximum("max_steps_over_envelope", steps / bound)
            if steps > bound:
                res.violation("step-envelope-exceeded", case, {"steps": steps, "chars": n, "bound": bound}, None)
            if self.C is not None and cpu > self.C * n + self.D:
                # confirm alone, min of 3
                cpus = [self.run_once(text)[2] for _ in range(3)]
                if min(cpus) > self.C * n + self.D:
                    res.violation("cpu-envelope-exceeded", case, {"cpu_ms": min(cpus) / 1e6, "chars": n,
                                                                  "bound_ms": (self.C * n + self.D) / 1e6}, None)
                else:
                    res.count("cpu_envelope_false_positive_under_load")
        return out


def tokens_of(text):
    try:
        return [t.text for t in reader.scan(text, keep_comments=False)]
    except reader.ScanError:
        return None


def mutate(r, toks, other):
    toks = list(toks)
    n = len(toks)
    if n == 0:
        return toks
    for _ in range(r.choice([1, 1, 1, 2, 3])):
        op = r.choice(["delete", "duplicate", "swap", "truncate", "splice", "shape", "shape", "shape", "insert-block", "insert-punct"])
        i = r.randrange(len(toks)) if toks else 0
        if not toks:
            break
        if op == "delete":
            del toks[i:i + r.choice([1, 1, 2, 5])]
        elif op == "duplicate":
            k = r.choice([1, 1, 2, 5])
            toks[i:i] = toks[i:i + k]
        elif op == "swap":
            j = r.randrange(len(toks))
            toks[i], toks[j] = toks[j], toks[i]
        elif op == "truncate":
            toks = toks[:i] if r.random() < 0.7 else toks[i:]
        elif op == "splice" and other:
            j = r.randrange(len(other))
            toks[i:i] = other[j:j + r.randint(1, 8)]
        elif op == "shape":
            toks[i] = r.choice(POOLS[r.choice(list(POOLS))])
        elif op == "insert-block":
            toks.insert(i, r.choice(BLOCKS + KV))
        else:
            toks.insert(i, r.choice(POOLS["punct"]))
    return toks


def join(r, toks):
    sep = r.choice([" ", " ", "\n", "\n", "\t"])
    if r.random() < 0.2:
        return "".join(t + r.choice([" ", "\n", "\t", "  ", "\r\n"]) for t in toks)
    return sep.join(toks)


def soup(r, keywords):
    n = r.randint(1, 40)
    out = []
    for _ in range(n):
        x = r.random()
        if x < 0.3:
            out.append(r.choice(keywords).upper())
        elif x < 0.45:
            out.append(r.choice(BLOCKS + KV))
        elif x < 0.55:
            out.append("END")
        else:
            out.append(r.choice(POOLS[r.choice(list(POOLS))]))
    return out


def unterminated(r):
    base = r.choice(["MAP NAME ", "LAYER DATA ", "CLASS EXPRESSION ", "MAP\n", "STYLE COLOR 1 2 3 ", ""])
    tail = r.choice(['"abc', "'abc", "/abc", "/* never closed", "[abc", "(abc", "{abc", "`abc", "\\\\abc", "(([a] = 1)", "([a] = \"x)",
                     "\"a\\\"", "%abc", "NOT", "(", "[", "{", "\"", "'", "#", "/*", "*/ END", "END END", ")", "]", "}"])
    return base + tail + r.choice(["", " END", "\nEND\n"])


GATED = set()  # keys of the listed known findings (filled by run)


def long_inputs(r, cap):
    """(text, category, depth_ok) - long repetitive inputs, sizes capped at `cap` characters."""
    out = []

    def layers(n):
        return "MAP\n" + "".join(f'LAYER NAME "l{i}" TYPE POINT STATUS ON CLASS STYLE COLOR {i % 255} 0 0 END END END\n' for i in range(n)) + "END"

    for n in (200, 1000, 4000, 8000):
        t = layers(n)
        if len(t) <= cap:
            out.append((t, "long:layers", True))
    for n in (2000, 20000):
        t = "MAP WEB METADATA\n" + "".join(f'"k{i}" "v{i}"\n' for i in range(n)) + "END END END"
        if len(t) <= cap:
            out.append((t, "long:metadata", True))
        t = "FEATURE POINTS\n" + "".join(f"{i} {i * 2}.5\n" for i in range(n)) + "END END"
        if len(t) <= cap:
            out.append((t, "long:points", True))
    for n in (10000, 100000, 500000):
        if n <= cap:
            out.append(('MAP NAME "' + "x" * n + '" END', "long:one-string", True))
            out.append(("MAP NAME " + "/" * n + " END", "long:slashes", True))
            out.append(("MAP NAME " + "%" * n + " END", "long:percents", True))
            out.append(('MAP NAME "' + '\\"' * (n // 2) + '" END', "long:escaped-quotes", True))
            out.append(("MAP # " + "c" * n + "\nEND", "long:comment", True))
            out.append(("MAP /* " + "c " * (n // 2) + "*/ END", "long:ccomment", True))
            out.append(("MAP " + "NAME x " * (n // 7) + "END", "long:repeated-keyword", True))
            out.append(("word " * (n // 5), "long:word-soup", True))
            out.append(("END " * (n // 4), "long:ends", True))
            out.append(("MAP " * (n // 4), "long:opens", True))
    for n in (10, 50, 100):
        chain = " AND ".join(f"[a{i}] = {i}" for i in range(n))
        out.append((f"CLASS EXPRESSION ({chain}) END", "long:and-chain", True))
        chain = " + ".join(f"[a{i}]" for i in range(n))
        out.append((f"CLASS EXPRESSION ({chain} > 1) END", "long:sum-chain", True))
        out.append(("CLASS EXPRESSION " + "(" * n + "[a] = 1" + ")" * n + " END", "long:nested-parens", True))
        out.append(("CLASS EXPRESSION (" + "NOT " * n + "[a] = 1) END", "long:not-chain", True))
        out.append(("CLASS EXPRESSION (" + "-" * 0 + "- " * n + "[a] > 1) END", "long:neg-chain", True))
        out.append(("MAP " + "LAYER CLASS STYLE " * 0 + "".join("LAYER " if i % 2 == 0 else "CLASS " for i in range(0)) + "END", "long:noop", True))
    # FLAT repetition at nesting depth 1: many operands / parameters / elements / lines of one kind (a filter listing hundreds of
    # values is ordinary; none of these nests anything)
    for n in (300, 600, 1500, 3000):
        ids = [f"[id] = {i}" for i in range(n)]
        out.append((f"LAYER FILTER ({' OR '.join(ids)}) END", "flat:or-chain", True))
        out.append((f"CLASS EXPRESSION ({' AND '.join(ids)}) END", "flat:and-chain", True))
        out.append((f"CLASS EXPRESSION ({' && '.join(ids)}) END", "flat:and-chain-symbols", True))
        out.append((f"CLASS TEXT ({' + '.join('[a%d]' % i for i in range(n))}) END", "flat:sum-chain", True))
        out.append((f"CLASS TEXT ({' * '.join(str(i + 1) for i in range(n))}) END", "flat:product-chain", True))
        out.append((f"CLASS TEXT (f({','.join(str(i) for i in range(n))})) END", "flat:function-parameters", True))
        out.append(("CLASS EXPRESSION {" + ",".join(f"v{i}" for i in range(n)) + "} END", "flat:list-elements", True))
        out.append(("LAYER " + " ".join(f'PROCESSING "K{i}=V"' for i in range(n)) + " END", "flat:repeated-keyword-lines", True))
        out.append(("MAP " + " ".join(f'CONFIG "K{i}" "v"' for i in range(n)) + " END", "flat:config-lines", True))
        out.append(("STYLE PATTERN " + " ".join(f"{i} {i}" for i in range(n)) + " END END", "flat:pattern-pairs", True))
        out.append(("MAP PROJECTION " + " ".join(f'"k{i}=v"' for i in range(n)) + " END END", "flat:projection-strings", True))
        out.append(("LAYER " + " ".join(f'CLASS NAME "c{i}" END' for i in range(n)) + " END", "flat:sibling-blocks", True))
        out.append(("FEATURE " + " ".join(f"POINTS {i} {i} {i + 1} {i + 1} END" for i in range(n)) + " END", "flat:points-blocks-of-one-feature", True))
        out.append(("LAYER " + " ".join(f"FEATURE POINTS {i} {i} END END" for i in range(n)) + " END", "flat:features", True))
        out.append(("SYMBOL POINTS " + " ".join(f"{i} {i}" for i in range(n)) + " END END", "flat:symbol-points", True))
        out.append(("CLASS # c\n" * 1 + " ".join(f'STYLE SIZE {i} END # s{i}\n' for i in range(n)) + " END", "flat:sibling-blocks-with-comments", True))
    # values the parse loop looks at one by one (unquoted names after SYMBOL / FONT / DATA ...), hundreds of them inside one open block
    for n in (300, 600):
        out.append(("MAP\n" + "".join(f'LAYER NAME "l{i}" CLASS STYLE SYMBOL circle END END END\n' for i in range(n)) + "END", "flat:bare-symbol-names", True))
        out.append(("MAP\n" + "".join(f'LAYER NAME l{i} DATA roads_{i} CLASS SYMBOL star LABEL FONT arial END END END\n' for i in range(n)) + "END",
                    "flat:bare-word-values", True))
        out.append(("MAP\n" + "".join(f"SYMBOL NAME sym{i} TYPE ellipse POINTS 1 1 END END\n" for i in range(n)) + "END", "flat:symbol-blocks", True))
    # the normalised form of such a chain, as dumps writes it: one more pair of parentheses per operand, nested to the left
    for n in ((100, 300) if "left-nested-expression-quadratic" in GATED else (100, 300, 1000, 3000)):
        s = "( [id] = 0 )"
        for i in range(1, n):
            s = f"( {s} OR ( [id] = {i} ) )"
        out.append((f"LAYER FILTER {s} END", f"left-nested-chain:{n}", True))
    for n in (300, 2000):
        out.append(("CLASS EXPRESSION " + "(" * n + "[a] = 1" + ")" * n + " END", "long:nested-parens-beyond-bound", False))
    return out


def stress_inputs(r):
    """Short inputs (< 3000 characters) built to stress the lazy / alternation regex terminals: runs of backslashes, escaped quotes,
    slashes, percent signs, stars ... inside terminated and UNTERMINATED strings, regexes and comments."""
    out = []
    for n in (8, 16, 24, 32, 48, 64, 128, 400, 1000):
        for q in ('"', "'"):
            for run in ("\\", "\\" + q, "\\\\", q + q, "\\x"):
                body = run * n
                if len(body) > 2500:
                    continue
                out.append(f"MAP NAME {q}{body}")                # never closed
                out.append(f"MAP NAME {q}{body}{q} END")         # closed
                out.append(f"MAP\n  NAME {q}{body}\n  STATUS ON\nEND")
        for run in ("/", "%", "*", "`", "\\\\", "/*", "*/", "[", "(", "{", "#"):
            body = run * n
            if len(body) <= 2500:
                out.append("CLASS EXPRESSION " + body)
                out.append("CLASS EXPRESSION " + body + " END")
                out.append("MAP /* " + body)
        out.append("CLASS EXPRESSION (" + "[a] = 1 AND " * min(n, 100) + "[b]")
        out.append("LAYER DATA " + "a/" * n)
        out.append("LAYER DATA " + "../" * n + " END")
        out.append("MAP NAME " + "x" * n + "." * n + "/ END")
    return out


def position_cases(ctx, J):
    """A valid generated document + ONE offending token inserted at a known place: the syntax error must carry the line and
    column of that token, counted in the caller's own text (a line break is LF; FF, tabs and a lone CR are ordinary characters)."""
    res = ctx.res
    r = ctx.rng("c11-pos")
    import mappyfile
    n = ctx.n(400, 8000)
    for j in range(n):
        nodes = gen.gen_document(r, gen.GenOpts(gated=ctx.gated, p_key=0.3, dup=0.0))[:1]
        s = render.surfaces(r, 1)[0]
        s.ws_kinds = r.choice([[" "], [" ", "\t"], [" ", "\t", "\f"], [" ", "\f"]])
        s.gap_comments = r.choice([0.0, 0.2])
        rr = render.render(nodes, s, r)
        text = rr.text
        toks = rr.tokens
        if len(toks) < 3:
            continue
        kind = r.choice(["surplus-end", "stray-char", "surplus-end-at-eof"])
        if kind == "surplus-end-at-eof":
            prefix = text.rstrip("\n\r")
            sep = r.choice([" ", "\f", "\n", "\r\n", "\t\f ", "\n\f"])
            bad = prefix + sep + "END"
            off = len(prefix) + len(sep)
        else:
            # insert the offending token in front of a token that starts a statement (so that it cannot be read as a value)
            cands = [t for t in toks[1:] if t.role in ("key", "open", "end")]
            if not cands:
                continue
            t = r.choice(cands)
            line_starts = [0]
            for i, ch in enumerate(text):
                if ch == "\n":
                    line_starts.append(i + 1)
            off = line_starts[t.line - 1] + t.col - 1
            ins = {"surplus-end": "END", "stray-char": r.choice(["@", "$", "&", "?"])}[kind]
            if kind == "surplus-end" and t.role != "open":
                continue  # a surplus END is only certainly an error in front of the root's own END / at top level; use the eof variant
            bad = text[:off] + ins + r.choice([" ", "\f", "\t"]) + text[off:]
        line = bad.count("\n", 0, off) + 1
        col = off - (bad.rfind("\n", 0, off) + 1) + 1
        case = {"category": "syntax-error-position", "text": bad if len(bad) < 4000 else bad[:4000], "kind": kind, "expected": [line, col]}
        public = (j % 40 == 0)
        try:
            if public:
                mappyfile.loads(bad)
            else:
                J.m.transform(J.p.parse(bad))
            res.count("position_case_accepted(not judged)")
            continue
        except J.lark.exceptions.UnexpectedInput as ex:
            res.count("syntax_error_positions_checked")
            res.seen("position-case-kinds", kind + ("/ff" if "\f" in bad[:off] else "") + ("/crlf" if "\r\n" in bad[:off] else ""))
            got = [getattr(ex, "line", None), getattr(ex, "column", None)]
            if kind == "surplus-end" and got != [line, col]:
                continue  # the parser may legitimately report the first token it cannot place after a mis-nested END
            if got != [line, col]:
                res.violation("syntax-error-position-wrong", case, got, [line, col])
        except Exception as ex:
            res.count("position_case_other_exception:" + type(ex).__name__)


def run_stress(ctx, J):
    """Pathological short inputs in a child process under RLIMIT_CPU: a kill at the CPU limit is a verdict on CPU time (the
    envelope for a < 3 kB input is ~0.3 s; the limit is 12 s), never on wall clock."""
    import json
    import resource
    import subprocess

    res = ctx.res
    r = ctx.rng("c11-stress")
    inputs = stress_inputs(r)
    inputs = inputs[ctx.shard::ctx.nshards]
    fd, path = tempfile.mkstemp(prefix="mf-stress-", suffix=".json")
    with os.fdopen(fd, "w") as f:
        json.dump(inputs, f)
    limit = 12
    start = 0
    kills = 0
    env = dict(os.environ, PYTHONPATH=core.VERIF + os.pathsep + core.DEPS)
    try:
        while start < len(inputs):
            def pre():
                resource.setrlimit(resource.RLIMIT_CPU, (limit, limit + 2))
            p = subprocess.run([core.PY, "-m", "mf.stress_child", path, str(start)], capture_output=True, text=True, env=env,
                               preexec_fn=pre, timeout=3600, cwd=core.VERIF)
            started = None
            done = set()
            for line in p.stdout.split("\n"):
                parts = line.split()
                if parts[:1] == ["START"]:
                    started = int(parts[1])
                elif parts[:1] == ["DONE"]:
                    i, cpu, outc = int(parts[1]), int(parts[2]), parts[3]
                    done.add(i)
                    res.count("stress_inputs_judged")
                    res.seen("inputs", h(inputs[i]))
                    n = max(len(inputs[i]), 1)
                    if J.C is not None and cpu > J.C * n + J.D and cpu > 2e9:
                        res.violation("cpu-envelope-exceeded", {"category": "stress", "text": inputs[i][:300] + ("..." if n > 300 else ""), "len": n},
                                      {"cpu_ms": cpu / 1e6, "bound_ms": (J.C * n + J.D) / 1e6}, None)
                    if outc not in ("ok", "UnexpectedCharacters", "UnexpectedToken", "UnexpectedEOF", "VisitError", "ParseError"):
                        res.violation("non-lark-exception-escapes:" + outc, {"category": "stress", "text": inputs[i][:300], "len": n}, outc, None)
            if p.returncode == 0:
                break
            if started is not None and started not in done:
                n = len(inputs[started])
                res.count("stress_inputs_judged")
                res.violation("cpu-envelope-exceeded", {"category": "stress", "text": inputs[started][:300] + ("..." if n > 300 else ""), "len": n},
                              {"killed_at_cpu_seconds": limit, "returncode": p.returncode, "bound_ms": ((J.C or 0) * n + J.D) / 1e6},
                              "within the CPU envelope")
                start = started + 1
                kills += 1
                if kills >= 3:
                    res.notes.append("stress: stopped after 3 inputs killed at the CPU limit in this shard")
                    break
            else:
                res.inconclusive_because(f"stress child died without a culprit (rc={p.returncode}): {p.stderr[-300:]}")
                break
    finally:
        os.remove(path)


def run(ctx):
    workdir = tempfile.mkdtemp(prefix="mf-c11-")
    old = os.getcwd()
    os.chdir(workdir)
    try:
        _run(ctx)
    finally:
        os.chdir(old)
        import shutil
        shutil.rmtree(workdir, ignore_errors=True)


def _run(ctx):
    res = ctx.res
    r = ctx.rng("c11")
    J = Judge(ctx)
    corp = [t for _, t in corpus.texts()]
    J.calibrate(corp[ctx.shard::max(1, ctx.nshards // 2)][:120])
    keywords = sorted(vocab.all_keywords())
    # seeds for mutation: corpus + generated documents
    seeds = []
    for t in corp[ctx.shard::ctx.nshards]:
        tk = tokens_of(t)
        if tk and len(tk) < 3000:
            seeds.append(tk)
    for _ in range(60):
        nodes = gen.gen_document(r, gen.GenOpts(gated=ctx.gated, p_key=0.3))
        tk = tokens_of(render.render(nodes).text)
        if tk:
            seeds.append(tk)
    # (d) every block type alone at the root
    if ctx.shard == 0:
        for b in BLOCKS:
            for text in (f"{b} END", f"{b.lower()}\nend", f"{b}\n  # only a comment\nEND"):
                out = J.judge(text, "root-block")
                if out[0] != "ok" or not isinstance(out[1], dict) or out[1].get("__type__") != b.lower():
                    res.violation("block-type-refused-at-root", {"category": "root-block", "text": text},
                                  repr(out[1])[:200], f"a dictionary of type {b.lower()}")
                elif text == f"{b} END":
                    res.count("root_block_types_accepted")
            f = gen.filler(r, b.lower(), None)
            if f is not None:
                node = gen.Node(b.lower(), [f])
                text = render.render([node]).text
                out = J.judge(text, "root-block+keyword")
                if out[0] != "ok":
                    res.violation("block-type-refused-at-root", {"category": "root-block+keyword", "text": text}, repr(out[1])[:200], None)
        for b in ("METADATA", "VALIDATION", "CONNECTIONOPTIONS", "SYMBOLSET"):
            J.judge(f"{b} END", "root-block-kv")
        # every way an INCLUDE line can be malformed or merely odd (missing names, comments glued to the keyword or the name,
        # quotes left open, several names): a parse error or an I/O error for a file that is not there, nothing else
        inc_forms = ["INCLUDE", "INCLUDE ", "INCLUDE#c", "INCLUDE#c d", "INCLUDE# see layers.map", "include#x y", "INCLUDE # c", "INCLUDE #c d",
                     "INCLUDE\t#c", "INCLUDE nofile.map#c", "INCLUDE nofile.map #c d", 'INCLUDE "nofile.map"#c', "INCLUDE 'nofile.map' 'b.map'",
                     'INCLUDE "nofile.map', "INCLUDE 'nofile.map", "INCLUDE \"\"", "INCLUDE ''", "INCLUDE #", "INCLUDE \"#\"", "INCLUDEX a", "INCLUDE=a",
                     "  include   nofile.map   ", "INCLUDE nofile.map extra words", "INCLUDE \"a b.map\" # c", "INCLUDE a#b#c d e", "INCLUDE#\"q\" r"]
        for form in inc_forms:
            for text in (f"MAP\n{form}\nEND", form, f"MAP\n  NAME \"x\"\n  {form}\r\nEND\n", f"LAYER METADATA\n{form}\nEND END"):
                J.judge(text, "include-line-forms")
        # empty inner blocks of every kind, as the first / only / later child of every root that can hold them (accepted or refused
        # with a parse error - never something else, never a malformed result)
        inner = ["PATTERN", "POINTS", "PROJECTION", "METADATA", "VALIDATION", "VALUES", "CONNECTIONOPTIONS"] + list(BLOCKS)
        for root in BLOCKS:
            for ib in inner:
                for text in (f"{root} {ib} END END", f"{root}\n  NAME \"x\"\n  {ib.lower()}\n  end\nEND", f"{root} {ib} END {ib} END END",
                             f"{root} {ib} END END {root} {ib} END END"):
                    J.judge(text, "empty-inner-block")
    else:
        res.count("root_block_types_accepted", 0)
    n = ctx.n(80000, 1600000)
    for i in range(n):
        x = r.random()
        if x < 0.55:
            base = r.choice(seeds)
            if len(base) > 400 and r.random() < 0.8:
                a = r.randrange(len(base) - 200)
                base = base[a:a + r.randint(20, 200)]
            text = join(r, mutate(r, base, r.choice(seeds)))
            cat = "mutation"
        elif x < 0.85:
            text = join(r, soup(r, keywords))
            cat = "soup"
        elif x < 0.95:
            text = unterminated(r)
            cat = "unterminated"
        else:
            text = join(r, mutate(r, soup(r, keywords), r.choice(seeds)))
            cat = "soup+mutation"
        if "include" in text.lower():
            # keep fuzz inputs off the file system except for harmless relative names
            text = text.replace("/dev/", "dev_").replace("/proc/", "proc_")
        J.judge(text, cat, public=(i % 2500 == 0))
        if len(res.samples) < 3 and cat != "soup" and 20 < len(text) < 200 and i > 10:
            res.sample({"category": cat, "input": text})
    # (e) long repetitive inputs
    cap = 200000 if ctx.quick else 1000000
    GATED.update(ctx.gated)
    longs = long_inputs(r, cap)
    for k, (text, cat, depth_ok) in enumerate(longs):
        if k % ctx.nshards != ctx.shard:
            continue
        res.count("long_inputs")
        res.maximum("largest_input_chars", len(text))
        J.judge(text, cat, depth_ok=depth_ok)
    J.steps.stop()
    position_cases(ctx, J)
    run_stress(ctx, J)


def replay(ctx, v):
    J = Judge(ctx)
    J.calibrate([t for _, t in corpus.texts()][:60])
    case = v["case"]
    if case.get("len", 0) > 5000:
        print("input was truncated in the replay file; re-run the tier to regenerate it")
        return
    J.judge(case["text"], case["category"])
