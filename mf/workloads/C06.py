"""C06 - formatting options never change content.

Deciding monitor: relation over recorded (pprint, parse) events: loads(dumps(d, **options)) must equal
loads(dumps(d)) exactly; with separate_complex_types the only admissible difference is the block-valued keys
of each object moved behind its simple keys, order kept inside each group.
"""
from __future__ import annotations

import copy
import hashlib

from .. import core, corpus, engine, gen, relations, render, vocab
from ..engine import Engine

RULE = ("corpus files, generated documents and vocabulary documents are formatted under the option sets of the cross product "
        "indent 0..8 x spacer x quote x newlinechar x end_comment x align_values x separate_complex_types (quick: pairwise-covering "
        "subset of ~48 sets incl. the four the repo's tests use; thorough: all 864 on a slice and the covering subset on everything); "
        "each formatted text is loaded and compared with the load of the default formatting; distinct = distinct (document, option set)")
EVAL_KEY = "pairs_judged"
DISTINCT_KEY = "pairs"
NSHARDS = {"quick": 8, "thorough": 16}
FLOORS = {"quick": {"pairs_judged": 7000, "distinct:option-sets": 40, "separate_complex_judged": 2000, "reordered_objects": 200, "documents_loaded_with_comments": 80},
          "thorough": {"pairs_judged": 150000, "distinct:option-sets": 700, "separate_complex_judged": 75000,
                       "reordered_objects": 10000, "documents_loaded_with_comments": 700}}
ASSUMPTIONS = ["block-valued keys = values printed with an END (child blocks, lists of blocks, key-value blocks, PROJECTION/POINTS/PATTERN), "
               "decided from the reference dictionary's values, not from key names"]
DOMAIN = gen.DOMAIN + ["documents containing the chosen quote character (or a backslash) inside a string are skipped for that quote (counted)",
                       "newlinechar=' ' only when no comment is emitted (end_comment off)"]


def h(s):
    return hashlib.sha1(s.encode()).hexdigest()[:12]


def is_block_value(k, v):
    if k == "config":
        return False  # CONFIG lines have no END
    if isinstance(v, dict):
        return True
    if k in ("projection", "points", "pattern"):
        return True
    if isinstance(v, list) and v and all(isinstance(i, dict) for i in v):
        return True
    return False


def separated(d, counter):
    """The reference dictionary with, in every object, block-valued keys moved behind the simple keys (order kept)."""
    if isinstance(d, list):
        return [separated(x, counter) for x in d]
    if not isinstance(d, dict):
        return d
    if d.get("__type__") in vocab.kv_keys() or "__type__" not in d:
        return d
    simple = [(k, v) for k, v in d.items() if not is_block_value(k, v)]
    blocks = [(k, v) for k, v in d.items() if is_block_value(k, v)]
    if [k for k, _ in simple + blocks] != list(d.keys()):
        counter[0] += 1
    out = type(d)() if not hasattr(d, "default_factory") else type(d)(d.default_factory)
    for k, v in simple:
        out[k] = v
    for k, v in blocks:
        out[k] = separated(v, counter) if k not in ("projection", "points", "pattern") else v
    return out


def judge_doc(ctx, eng, d, osets, label, ident):
    res = ctx.res
    if relations.has_backslash(d):
        res.count("excluded:backslash-in-string")
        return
    if relations.contains_quote(d, '"'):
        res.count("excluded:default-formatting-outside-guarantee(string contains the default quote)")
        return
    try:
        ref_text = eng.dumps(copy.deepcopy(d), force_public=False)
        ref = eng.loads(ref_text)
    except Exception as ex:
        res.count("default-formatting-failed:" + type(ex).__name__)
        return
    pref = core.plain(ref)
    for o in osets:
        if relations.contains_quote(d, o["quote"]):
            res.count("excluded:string-contains-output-quote")
            continue
        if o["newlinechar"] == " " and (o["end_comment"] or label.endswith("+comments")):
            res.count("excluded:space-newline-with-comments")
            continue
        case = {"workload": label, "doc": ident, "options": o, "dict": core.canon(d) if len(repr(d)) < 20000 else None}
        res.count("pairs_judged")
        res.seen("pairs", h(ident + engine.opt_key(o)))
        res.seen("option-sets", engine.opt_key(o))
        for k, v in o.items():
            res.count(f"opt:{k}={v!r}")
        try:
            k = res.counters["pairs_judged"] % 6
            if k == 0:
                t = eng.mf.dumps(copy.deepcopy(d), **o)
                res.count("via:public-dumps")
            elif k == 3:
                import io
                buf = io.StringIO()
                eng.mf.dump(copy.deepcopy(d), buf, **o)
                t = buf.getvalue()
                res.count("via:public-dump")
            else:
                t = eng.dumps(copy.deepcopy(d), **o)
        except Exception as ex:
            res.violation("dumps-raises-under-options", case, f"{type(ex).__name__}: {str(ex)[:200]}", "text")
            continue
        try:
            got = eng.loads(t)
        except Exception as ex:
            res.violation("formatted-text-not-accepted", dict(case, text=t[:3000]), f"{type(ex).__name__}: {str(ex)[:200]}",
                          "accepted by loads")
            continue
        if o["separate_complex_types"]:
            res.count("separate_complex_judged")
            cnt = [0]
            want = core.plain(separated(ref, cnt))
            res.count("reordered_objects", cnt[0])
        else:
            want = pref
        pg = core.plain(got)
        if pg != want:
            kind = "content-changed-by-options" if not o["separate_complex_types"] or _sorted_plain(pg) != _sorted_plain(want) \
                else "separate_complex_types-moved-something-else"
            res.violation(kind, dict(case, text=t[:3000]), core.first_diff(want, pg), None)


def _sorted_plain(p):
    if p[0] == "D":
        return ("D", tuple(sorted((k, _sorted_plain(v)) for k, v in p[1])))
    if p[0] == "L":
        return ("L", tuple(_sorted_plain(v) for v in p[1]))
    return p


def run(ctx):
    eng = Engine(public_every=200)
    res = ctx.res
    r = ctx.rng("c06")
    cover = engine.covering_option_sets(r, 48)
    allsets = engine.all_option_sets()
    docs = []
    for path, text in corpus.texts(ctx):
        try:
            docs.append(("corpus", corpus.rel(path), eng.loads(text)))
        except Exception:
            res.count("corpus_files_rejected")
    n = ctx.n(400, 3000)
    for j in range(n):
        nodes = gen.gen_document(r, gen.GenOpts(gated=ctx.gated, p_key=r.choice([0.2, 0.4]), dup=0.0))
        if j % 3 == 2:
            # the dictionary carries the source's comments (what `mappyfile format --comments` prints): the content of the text
            # written under any option set is the same
            sf = render.surfaces(r, 1)[0]
            sf.gap_comments = r.choice([0.2, 0.4])
            text = render.render(nodes, sf, r).text
            try:
                docs.append(("gen+comments", h(text), eng.loads(text, include_comments=True)))
                res.count("documents_loaded_with_comments")
            except Exception:
                res.count("commented_rendering_not_accepted(C05 decides)")
            continue
        text = render.render(nodes).text
        docs.append(("gen", h(text), eng.loads(text)))
    for i, (o, k, ai) in enumerate(gen.vocab_slots()):
        if not ctx.mine(i) or (ctx.quick and i % 3):
            continue
        p = vocab.prop(o, k)
        a = p.alts[ai]
        if (o, k) in gen.UNWRITABLE or (a.kind == "block" and (o, k + ":block") in gen.UNWRITABLE):
            continue
        node, it = gen.vocab_doc(r, o, k, ai, "middle")
        gen.apply_gates(node, ctx.gated)
        docs.append(("vocab", f"{o}.{k}:{a.kind}", eng.loads(render.render([node]).text)))
    for idx, (label, ident, d) in enumerate(docs):
        if ctx.quick:
            osets = r.sample(cover, 14) if label != "vocab" else r.sample(cover, 3)
        else:
            osets = allsets if idx % 12 == 0 else r.sample(cover, 12)
        judge_doc(ctx, eng, d, osets, label, ident)
        res.count("docs:" + label)
    # the alignment arithmetic at its edge: for every object type the two longest non-block keywords, written with
    # align_values=True under EVERY indent 0..8 and both spacers (the value column is computed from the longest keyword and the indent;
    # a keyword that reaches the column must still be separated from its value) - own random stream, after everything else
    r2 = ctx.rng("c06-longest-keywords")
    per_obj = {}
    for i, (o, k, ai) in enumerate(gen.vocab_slots()):
        a = vocab.prop(o, k).alts[ai]
        if a.kind == "block" or (o, k) in gen.UNWRITABLE:
            continue
        per_obj.setdefault(o, {}).setdefault(k, ai)
    edge = [dict(indent=ind, spacer=sp, quote='"', newlinechar="\n", end_comment=False, align_values=True, separate_complex_types=False)
            for ind in engine.INDENTS for sp in engine.SPACERS]
    for oi_, (o, ks) in enumerate(sorted(per_obj.items())):
        if not ctx.mine(oi_):
            continue
        for k in sorted(ks, key=lambda kk: (-len(kk), kk))[:2]:
            node, it = gen.vocab_doc(r2, o, k, ks[k], "middle")
            gen.apply_gates(node, ctx.gated)
            try:
                d = eng.loads(render.render([node]).text)
            except Exception:
                res.count("longest_keyword_docs_rejected")
                continue
            judge_doc(ctx, eng, d, edge, "longest-keyword", f"{o}.{k}")
            res.count("docs:longest-keyword")
    if docs and not res.samples:
        d = docs[-1][2]
        res.sample({"options": engine.opt_key(cover[5]), "text": eng.dumps(copy.deepcopy(d), **cover[5])[:600]})


def replay(ctx, v):
    eng = Engine(public_every=0)
    case = v["case"]
    if case.get("dict"):
        d = core.decanon(case["dict"])
    else:
        import os
        d = eng.loads(open(os.path.join(core.REPO, case["doc"]), encoding="utf-8").read())
    judge_doc(ctx, eng, d, [case["options"]], "replay", case["doc"])
