"""C12 - calls are pure, history-independent and safe to run concurrently.

Deciding monitors: (a) icontract snapshot+ensure purity contracts (argument fingerprints before == after) on the real
public functions, plus the audit hook (nothing is opened for writing except by save); (b) history relation: k-th result
of reused Parser / MapfileToDict / PrettyPrinter / Validator objects vs fresh objects, with hidden state asserted at
quiescent points; (c) thread stress under sys.setswitchinterval(1e-5) and a sys.monitoring yield injector, every result
compared with the sequential reference; context switches actually observed inside mappyfile code are counted.
"""
from __future__ import annotations

import copy
import hashlib
import io
import os
import sys
import tempfile
import threading
import time

from .. import core, corpus, edits, engine, expect, gen, render, vocab
from ..mon import audit, contracts, trace

RULE = ("(a) purity: every call of open/load/loads, dumps/dump/save, validate, find/findall/findunique/findkey made over vocabulary, "
        "generated, corpus and edited dictionaries is fingerprinted before and after; (b) reuse: random sequences of documents (valid, "
        "failing, with comments, with positions, differing versions) through one Parser/MapfileToDict/PrettyPrinter/Validator vs fresh "
        "objects; (c) threads: 6-16 threads calling loads/dumps/validate/find* on different and identical inputs under a 1e-5 s switch "
        "interval and seeded yield injection; distinct = distinct (function, argument fingerprint) / (sequence position) / (thread, call)")
EVAL_KEY = "evaluations"
DISTINCT_KEY = "cases"
NSHARDS = {"quick": 8, "thorough": 16}
TIMEOUT = {"quick": 1500, "thorough": 7200}
FLOORS = {"quick": {"purity_evals": 3000, "reuse_comparisons": 250, "thread_results_compared": 150, "thread_switches_in_mappyfile": 300,
                    "quiescent_state_checks": 100, "frontend_history_steps": 400},
          "thorough": {"purity_evals": 25000, "reuse_comparisons": 15000, "thread_results_compared": 3000,
                       "thread_switches_in_mappyfile": 20000, "quiescent_state_checks": 5000, "frontend_history_steps": 8000}}
ASSUMPTIONS = ["fingerprints are a canonical, type-tagged, order-preserving serialisation (mf/core.py)",
               "'any schedule' is restated as: the interleavings CPython's GIL actually produced under yield injection (counted)"]
DOMAIN = ["dumps with separate_complex_types and validate with add_comments are documented to modify their argument and are excluded"]

VIOL = []
PURE = {}


class ContractBroken(Exception):
    pass


def h(*a):
    return hashlib.sha1(repr(a).encode("utf-8", "surrogatepass")).hexdigest()[:12]


# ------------------------------------------------------------------------------------------------
# (a) purity contracts on the real functions


def _fp_args(*vals):
    return [core.fp(v) if isinstance(v, (dict, list, tuple)) else None for v in vals]


def snap_d(d):
    return _fp_args(d)


def post_d_factory(name):
    def post(d, OLD):
        contracts.bump("purity:" + name)
        if _fp_args(d) != OLD.pre:
            VIOL.append((name + "-modifies-its-argument", {"fn": name, "arg": core.canon(d) if len(repr(d)) < 20000 else "large"}))
        return True

    post.__name__ = "post_" + name
    return post


def snap_dumps(d, separate_complex_types):
    return (_fp_args(d), separate_complex_types)


def post_dumps_factory(name):
    def post(d, separate_complex_types, OLD):
        contracts.bump("purity:" + name)
        if separate_complex_types:
            contracts.bump("purity-excluded:separate_complex_types")
            return True
        if _fp_args(d) != OLD.pre[0]:
            VIOL.append((name + "-modifies-its-argument", {"fn": name, "arg": core.canon(d) if len(repr(d)) < 20000 else "large"}))
        return True

    post.__name__ = "post_" + name
    return post


def snap_lst(lst):
    return _fp_args(lst)


def post_lst_factory(name):
    def post(lst, OLD):
        contracts.bump("purity:" + name)
        if _fp_args(lst) != OLD.pre:
            VIOL.append((name + "-modifies-its-argument", {"fn": name, "arg": core.canon(lst) if len(repr(lst)) < 20000 else "large"}))
        return True

    post.__name__ = "post_" + name
    return post


def attach():
    if PURE:
        return PURE
    import icontract
    import mappyfile
    from mappyfile import dictutils, utils

    def wrap(mod, name, snap, post):
        orig = getattr(mod, name)
        f = icontract.ensure(post, error=ContractBroken)(orig)
        f = icontract.snapshot(snap, name="pre")(f)
        n = contracts.rebind(orig, f)
        PURE[name] = (f, n)

    for name in ("dumps", "dump", "save"):
        wrap(utils, name, snap_dumps, post_dumps_factory(name))
    wrap(utils, "validate", snap_d, post_d_factory("validate"))
    for name in ("find", "findall", "findunique"):
        wrap(dictutils, name, snap_lst, post_lst_factory(name))
    wrap(dictutils, "findkey", snap_d, post_d_factory("findkey"))
    return PURE


def flush(res):
    for kind, case in VIOL:
        res.violation(kind, case, "fingerprint after the call differs from the fingerprint before", "unchanged arguments")
    VIOL.clear()


def purity_workload(ctx, tmp):
    import mappyfile

    res = ctx.res
    r = ctx.rng("purity")
    attach()
    for name, (_, n) in PURE.items():
        if getattr(mappyfile, name) is not PURE[name][0]:
            res.inconclusive_because(f"mappyfile.{name} is not the contracted function")
    aud = audit.OpenAudit.get()
    eng = engine.Engine(public_every=0)
    docs = []
    for path, text in corpus.texts(ctx):
        docs.append(("corpus", text))
    for j in range(ctx.n(300, 6000)):
        nodes = gen.gen_document(r, gen.GenOpts(gated=ctx.gated, p_key=r.choice([0.2, 0.4]), dup=0.02))
        docs.append(("gen", render.render(nodes, render.surfaces(r, 1)[0], r).text))
    for i, (o, k, ai) in enumerate(gen.vocab_slots()):
        if ctx.mine(i) and i % 4 == 0:
            p = vocab.prop(o, k)
            a = p.alts[ai]
            if (o, k) in gen.UNWRITABLE or (a.kind == "block" and (o, k + ":block") in gen.UNWRITABLE):
                continue
            node, it = gen.vocab_doc(r, o, k, ai, "middle")
            gen.apply_gates(node, ctx.gated)
            docs.append(("vocab", render.render([node]).text))
    out_fn = os.path.join(tmp, "pure_out.map")
    in_fn = os.path.join(tmp, "pure_in.map")
    for idx, (label, text) in enumerate(docs):
        try:
            d = eng.loads(text, include_comments=(idx % 5 == 0), include_position=(idx % 7 == 0))
        except Exception as ex:
            res.count(f"purity_doc_not_accepted({label}):" + type(ex).__name__)
            continue
        if idx % 3 == 0 and isinstance(d, dict):
            d, _, _ = edits.gen_history(r, d, r.randint(1, 8), gated=ctx.gated, allow_missing_reads=False)
        res.count("purity_docs:" + label)
        res.seen("cases", h("purity", text[:2000]))
        text_before = str(text)
        aud.start()
        # loads / load / open never modify the text and open nothing for writing
        try:
            if idx % 6 == 0:
                with open(in_fn, "w", encoding="utf-8", newline="") as f:
                    f.write(text)
                aud.stop()
                aud.start()
                mappyfile.open(in_fn, expand_includes=False)
                res.count("purity_evals")
                with open(in_fn, encoding="utf-8") as fp:
                    mappyfile.load(fp, expand_includes=False)
                res.count("purity_evals")
        except Exception:
            pass
        opts = dict(indent=r.choice([0, 2, 4]), quote=r.choice(['"', "'"]), end_comment=r.random() < 0.3, align_values=r.random() < 0.3)
        for fn in ("dumps", "dump", "save"):
            try:
                if fn == "dumps":
                    mappyfile.dumps(d, **opts)
                elif fn == "dump":
                    mappyfile.dump(d, io.StringIO(), **opts)
                elif idx % 4 == 0:
                    mappyfile.save(d, out_fn, **opts)
            except Exception:
                res.count("purity_call_raised:" + fn)
        events = aud.stop()
        writes = [p for p, mode, _ in events if isinstance(mode, str) and any(c in mode for c in "wax+") and p not in (out_fn, in_fn)]
        if writes:
            res.violation("pure-call-opens-a-file-for-writing", {"fn": "loads/dumps/dump", "paths": writes[:3]}, writes[:3], "no writes")
        res.count("audit_windows_checked")
        if text != text_before:
            res.violation("text-modified", {"fn": "loads"}, None, None)
        roots = d if isinstance(d, list) else [d]
        for root in roots:
            try:
                if root.get("__type__") == "map":
                    mappyfile.validate(root, version=r.choice([None, 7.6, 8.0]))
            except Exception:
                res.count("purity_call_raised:validate")
            for lk in ("layers", "classes", "styles", "labels", "symbols"):
                lst = root.get(lk) if isinstance(root, dict) else None
                if isinstance(lst, list) and lst:
                    for fn, args in (("find", (lst, "name", "x")), ("findall", (lst, "group", ["a", "b"])), ("findunique", (lst, "type")),
                                     ("findall", (lst, "status", "ON"))):
                        try:
                            getattr(mappyfile, fn)(*args)
                        except Exception:
                            res.count("purity_call_raised:" + fn)
                    try:
                        mappyfile.findkey(root, lk, 0)
                    except Exception:
                        res.count("purity_call_raised:findkey")
        flush(res)
    total = 0
    for k, v in contracts.EVALS.items():
        if k.startswith("purity:"):
            res.count(k, v)
            total += v
    res.count("purity_evals", total)


# ------------------------------------------------------------------------------------------------
# (b) history independence of the four worker objects


def reuse_workload(ctx):
    from mappyfile.parser import Parser
    from mappyfile.pprint import PrettyPrinter
    from mappyfile.transformer import MapfileToDict
    from mappyfile.validator import Validator

    res = ctx.res
    r = ctx.rng("reuse")
    pool = []
    corp = [t for _, t in corpus.texts(ctx)]
    for _ in range(40):
        nodes = gen.gen_document(r, gen.GenOpts(gated=ctx.gated, p_key=0.3))
        s = render.surfaces(r, 1)[0]
        s.gap_comments = 0.3
        pool.append(render.render(nodes, s, r).text)
    pool += r.sample(corp, min(len(corp), 15))
    bad = ['MAP NAME "unterminated', "MAP LAYER END", "LAYER TYPE END END", "CLASS EXPRESSION ( END", "MAP\n# only comment\n", "STYLE COLOR 1 2 END",
           "MAP OUTPUTFORMAT IMAGEMODE FEATURE END END", "INCLUDE"]
    # twin documents: the same keyword holding a number in one and the string with the same digits in the other (SYMBOL 1 / SYMBOL "1"),
    # for every keyword whose schema takes both - what one object printed, validated or parsed for the first must not colour the second
    twins = []
    for o in vocab.object_types():
        for k, pr in vocab.props(o).items():
            kinds = pr.kinds()
            if "string" in kinds and ({"number", "integer"} & kinds) and not k.startswith("__") and (o, k) not in gen.UNWRITABLE:
                for n in ("1", "12", "2.5"):
                    if n == "2.5" and "number" not in kinds:
                        continue
                    twins.append((f"{o.upper()}\n  {k.upper()} {n}\nEND\n", f"{o.upper()}\n  {k.upper()} \"{n}\"\nEND\n"))
    res.count("twin_documents_available", len(twins))
    nseq = ctx.n(24, 480)
    for sidx in range(nseq):
        comments = r.random() < 0.5
        position = r.random() < 0.5
        # half of the sequences with the include pre-pass on, as the public functions run it (corpus files holding directives excluded)
        expand = sidx % 2 == 0
        p = Parser(expand_includes=expand, include_comments=comments)
        m = MapfileToDict(include_position=position, include_comments=comments)
        pp_opts = dict(indent=r.choice([0, 2, 4]), quote=r.choice(['"', "'"]), end_comment=r.random() < 0.3)
        pp = PrettyPrinter(**pp_opts)
        v = Validator()
        length = r.randint(20, 40) if ctx.quick else r.randint(20, 200)
        mix = set()
        pending = None
        for k in range(length):
            twin = pending is not None
            if twin:
                text, pending = pending, None
            elif twins and r.random() < 0.12:
                a, b = r.choice(twins)
                text, pending = (a, b) if r.random() < 0.5 else (b, a)
                twin = True
            else:
                text = r.choice(bad) if r.random() < 0.2 else r.choice(pool)
            if twin:
                res.count("twin_document_steps")
            if expand and engine._DIRECTIVE.search(text) and text != "INCLUDE":
                continue
            version = r.choice([None, None, 5.0, 7.6, 8.0, 8.2])
            case = {"part": "reuse", "sequence": sidx, "position_in_sequence": k, "comments": comments, "include_position": position,
                    "text": text[:3000], "version": version}

            def pipeline(pz, mz, ppz, vz):
                out = {}
                try:
                    d = mz.transform(pz.parse(text))
                    out["dict"] = core.fp(d)
                except Exception as ex:
                    out["parse_exc"] = type(ex).__name__
                    return out
                try:
                    out["text"] = ppz.pprint(copy.deepcopy(d))
                except Exception as ex:
                    out["print_exc"] = type(ex).__name__
                root = d[0] if isinstance(d, list) else d
                try:
                    msgs = vz.validate(copy.deepcopy(root), schema_name=root.get("__type__", "map"), version=version) \
                        if root.get("__type__") in vocab.object_types() else []
                    out["validate"] = core.fp([(x.get("message"), x.get("error"), x.get("line"), x.get("column")) for x in msgs])
                except Exception as ex:
                    out["validate_exc"] = type(ex).__name__
                return out

            got = pipeline(p, m, pp, v)
            if k % 2 == 0 or "parse_exc" in got or twin:
                want = pipeline(Parser(expand_includes=expand, include_comments=comments),
                                MapfileToDict(include_position=position, include_comments=comments), PrettyPrinter(**pp_opts), Validator())
                res.count("reuse_comparisons")
                res.seen("cases", h("reuse", sidx, k, ctx.shard))
                if got != want:
                    diff = {kk: (got.get(kk), want.get(kk)) for kk in set(got) | set(want) if got.get(kk) != want.get(kk)}
                    res.violation("reused-object-result-differs-from-fresh", case, {kk: (str(a)[:300], str(b)[:300]) for kk, (a, b) in diff.items()}, None)
            mix.add(("fail" if "parse_exc" in got else "ok") + ("+v" if version else ""))
            # the SAME dictionary object validated again after an edit (validate, fix or break something, validate again): the answer
            # is about the dictionary as it is now
            if "parse_exc" not in got and k % 3 == 0:
                try:
                    dd = m.transform(p.parse(text))
                    held = dd[0] if isinstance(dd, list) else dd
                except Exception:
                    held = None
                if isinstance(held, dict) and held.get("__type__") in vocab.object_types():
                    tname = held["__type__"]

                    def fpv(msgs):
                        return core.fp(sorted((x.get("message"), x.get("error")) for x in msgs))
                    try:
                        if sidx % 3 == 0:
                            # the excluded option used ONCE on this Validator, on a throw-away copy: it must not stick to the object
                            scratch = copy.deepcopy(held)
                            scratch["status"] = "not a status either"
                            v.validate(scratch, schema_name=tname, add_comments=True)
                            res.count("add_comments_calls_in_history")
                        for edit in ("as-loaded", "break", "break-more", "repair"):
                            if edit == "break":
                                held["status"] = "certainly not a status"
                            elif edit == "break-more":
                                held["zzunknown"] = 1
                            elif edit == "repair":
                                held.pop("status", None)
                                held.pop("zzunknown", None)
                            before_fp = core.fp(held)
                            a = fpv(v.validate(held, schema_name=tname, version=version))
                            if core.fp(held) != before_fp:
                                res.violation("reused-validator-modifies-the-dictionary", dict(case, edit=edit),
                                              "dictionary changed by validate()", "unchanged")
                                break
                            b = fpv(Validator().validate(copy.deepcopy(held), schema_name=tname, version=version))
                            res.count("same_object_revalidations")
                            if a != b:
                                res.violation("reused-validator-answers-about-an-earlier-state-of-the-dictionary", dict(case, edit=edit), a[:300], b[:300])
                                break
                    except Exception as ex:
                        res.violation("revalidation-raises", case, f"{type(ex).__name__}: {str(ex)[:200]}", None)
            # quiescent point: the parser's comment buffer holds only comments of the current text
            if comments and "parse_exc" not in got:
                res.count("quiescent_state_checks")
                stale = [c for c in p._comments if str(c) not in text]
                if stale:
                    res.violation("parser-keeps-comments-of-an-earlier-text", case, [str(c)[:80] for c in stale[:3]], None)
            elif not comments:
                res.count("quiescent_state_checks")
                if p._comments:
                    res.violation("parser-collects-comments-although-off", case, len(p._comments), 0)
        res.seen("sequence-mixes", f"comments={comments} position={position} {sorted(mix)}")
        res.count("reuse_sequences")


def frontend_history_workload(ctx):
    """One Parser (includes expanded, as the public functions do) driven through files, named and anonymous streams and plain strings
    in random order: every step must give what a fresh Parser gives for that step alone (relative INCLUDEs resolve against the file
    of THIS call, or the working directory for plain strings - never against anything an earlier call was given)."""
    import io
    import shutil
    import tempfile

    from mappyfile.parser import Parser
    from mappyfile.transformer import MapfileToDict

    res = ctx.res
    r = ctx.rng("frontends")
    base = tempfile.mkdtemp(prefix="mf-c12f-")
    old = os.getcwd()
    try:
        dirs = {}
        for name in ("cwd", "A", "B/deeper"):
            d = os.path.join(base, name)
            os.makedirs(os.path.join(d, "inc"), exist_ok=True)
            dirs[name] = d
            for rel in ("shared.inc", "inc/part.map"):
                with open(os.path.join(d, rel), "w", encoding="utf-8") as f:
                    f.write(f'NAME "from-{name}-{rel}"\n')
        root_text = 'MAP\nINCLUDE "shared.inc"\n  include inc/part.map # trailing\nSTATUS ON\nEND # map\n'
        plain_text = 'MAP\nNAME "no includes" # c\nLAYER NAME "l" END\nEND\n'
        for name in ("A", "B/deeper"):
            with open(os.path.join(dirs[name], "root.map"), "w", encoding="utf-8") as f:
                f.write(root_text)
        os.chdir(dirs["cwd"])
        kinds = ["file:A", "file:B/deeper", "text", "stream-named:A", "stream-named:B/deeper", "stream-anon", "text-fn:A", "text-fn:B/deeper",
                 "missing-file", "plain", "bad-text"]

        def step(pz, kind):
            m = MapfileToDict(include_comments=pz.include_comments)
            try:
                k, _, where = kind.partition(":")
                if k == "file":
                    tree = pz.parse_file(os.path.join(dirs[where], "root.map"))
                elif k == "text":
                    tree = pz.parse(root_text)
                elif k == "stream-named":
                    with open(os.path.join(dirs[where], "root.map"), encoding="utf-8") as fp:
                        tree = pz.load(fp)
                elif k == "stream-anon":
                    tree = pz.load(io.StringIO(root_text))
                elif k == "text-fn":
                    tree = pz.parse(root_text, fn=os.path.join(dirs[where], "root.map"))
                elif k == "missing-file":
                    tree = pz.parse_file(os.path.join(dirs["A"], "nope.map"))
                elif k == "plain":
                    tree = pz.parse(plain_text)
                else:
                    tree = pz.parse('MAP NAME "unterminated')
                return ("ok", core.fp(m.transform(tree)))
            except Exception as ex:
                return ("exc", type(ex).__name__)

        fresh = {}  # what a fresh Parser gives for one step alone, per state of the files
        version = {name: 0 for name in dirs}  # the included files are edited between calls now and then (three contents in rotation)
        for sidx in range(ctx.n(64, 1600)):
            comments = sidx % 2 == 0
            p = Parser(include_comments=comments)
            hist = []
            for k in range(r.randint(4, 12)):
                if r.random() < 0.15:
                    name = r.choice(sorted(dirs))
                    version[name] = (version[name] + 1) % 3
                    for rel in ("shared.inc", "inc/part.map"):
                        with open(os.path.join(dirs[name], rel), "w", encoding="utf-8") as f:
                            f.write(f'NAME "from-{name}-{rel}"\n' if version[name] == 0 else f'NAME "from-{name}-{rel}-edit{version[name]}"\nDEBUG {version[name]}\n')
                    hist.append(f"edit-included-files:{name}")
                    res.count("frontend_history_include_edits")
                kind = r.choice(kinds)
                hist.append(kind)
                got = step(p, kind)
                fk = (kind, comments, tuple(sorted(version.items())))
                if fk not in fresh:
                    fresh[fk] = step(Parser(include_comments=comments), kind)
                want = fresh[fk]
                res.count("frontend_history_steps")
                res.seen("frontend-step-pairs", f"{hist[-2] if len(hist) > 1 else '-'} -> {kind}")
                if got != want:
                    res.violation("reused-parser-depends-on-earlier-front-end-call", {"part": "frontend-history", "history": list(hist),
                                  "comments": comments}, str(got)[:300], str(want)[:300])
                    break
    finally:
        os.chdir(old)
        shutil.rmtree(base, ignore_errors=True)


# ------------------------------------------------------------------------------------------------
# (c) threads


def thread_workload(ctx):
    import mappyfile

    res = ctx.res
    r = ctx.rng("threads")
    nthreads = r.choice([6, 8]) if ctx.quick else r.choice([8, 12, 16])
    rounds = 1 if ctx.quick else 2
    # documents: per-thread distinct (distinct comments and versions) + one shared
    shared_nodes = gen.gen_document(r, gen.GenOpts(gated=ctx.gated, p_key=0.4, dup=0.0), root="map")
    shared = render.render(shared_nodes).text
    jobs = []
    for t in range(nthreads):
        nodes = gen.gen_document(r, gen.GenOpts(gated=ctx.gated, p_key=0.4, dup=0.0), root=r.choice(["map", "layer"]))
        gen.place_comments(nodes, r, 0.5, 0.5)
        text = render.render(nodes, render.Surface(layout="lines", placed_comments=True)).text.replace("# c", f"# t{t}c")
        jobs.append({"own": text, "shared": shared, "version": [None, 5.0, 6.4, 7.0, 7.6, 8.0, 8.2][t % 7], "bad": 'MAP NAME "x' if t % 3 == 0 else None})

    def work(job, out):
        """The calls one thread makes; every result is reduced to a fingerprint."""
        for key in ("own", "shared")[: (2 if job.get("both", True) else 1)]:
            text = job[key]
            try:
                d = mappyfile.loads(text, include_comments=True, include_position=(key == "own"))
                out.append((key, "loads", core.fp(d)))
                s = mappyfile.dumps(d, indent=2)
                out.append((key, "dumps", h(s)))
                root = d[0] if isinstance(d, list) else d
                if root.get("__type__") == "map":
                    msgs = mappyfile.validate(root, version=job["version"])
                    out.append((key, "validate", core.fp([(m.get("message"), m.get("error"), m.get("line")) for m in msgs])))
                lst = root.get("layers") or root.get("classes") or []
                out.append((key, "find", core.fp(mappyfile.find(lst, "name", "x")) if lst else None))
                out.append((key, "findall", core.fp(mappyfile.findall(lst, "status", ["ON", "OFF"])) if lst else None))
                out.append((key, "fp-after", core.fp(d)))
            except Exception as ex:
                out.append((key, "exc", type(ex).__name__ + ":" + str(ex)[:80]))
        if job["bad"]:
            try:
                mappyfile.loads(job["bad"])
                out.append(("bad", "loads", "accepted"))
            except Exception as ex:
                out.append(("bad", "loads", type(ex).__name__))

    shared_root = mappyfile.loads(shared)
    shared_root = shared_root[0] if isinstance(shared_root, list) else shared_root

    def work_same(job, out):
        """Phase B: every thread makes the SAME calls on the SAME dictionary with the SAME versions at the same moment."""
        for rep in range(5):
            for ver in same_versions + [job["version"]]:
                try:
                    msgs = mappyfile.validate(shared_root, version=ver)
                    out.append((f"validate@{ver}#{rep}", sorted(m["message"].replace("ERROR: Invalid value in ", "") for m in msgs)))
                except Exception as ex:
                    out.append((f"validate@{ver}#{rep}", "exc:" + type(ex).__name__))
            try:
                out.append((f"dumps#{rep}", h(mappyfile.dumps(shared_root, quote="'"))))
            except Exception as ex:
                out.append((f"dumps#{rep}", "exc:" + type(ex).__name__))

    # sequential reference for phase A; for phase B the expectation is INDEPENDENT of mappyfile (mf/schemamodel.py) and the
    # versions were never asked before in this process, so the first pruning of each versioned schema happens concurrently
    from .. import schemamodel
    pool = [4.8, 5.2, 5.4, 5.6, 6.0, 6.2, 7.0, 7.2, 7.4]
    same_versions = r.sample(pool, 3)
    ref = []
    ref_same = []
    for job in jobs:
        o = []
        work(job, o)
        ref.append(o)
    ref_dumps = h(mappyfile.dumps(shared_root, quote="'"))
    for job in jobs:
        o2 = []
        for rep in range(5):
            for ver in same_versions + [job["version"]]:
                errs = schemamodel.errors(shared_root, "map", ver)
                o2.append((f"validate@{ver}#{rep}", sorted(n for _, n, _ in schemamodel.error_targets(shared_root, errs))))
            o2.append((f"dumps#{rep}", ref_dumps))
        ref_same.append(o2)
    shared_fp = core.fp(shared_root)
    old = sys.getswitchinterval()
    inj = trace.YieldInjector(os.path.join(core.REPO, "mappyfile"), p=0.01, seed=ctx.seed * 100 + ctx.shard)
    try:
        sys.setswitchinterval(1e-5)
        inj.start()
        for rnd in range(rounds):
            outs = [[] for _ in jobs]
            outs_same = [[] for _ in jobs]
            barrier = threading.Barrier(len(jobs))
            barrier2 = threading.Barrier(len(jobs))

            def runner(i):
                barrier.wait()
                work(jobs[i], outs[i])
                try:
                    barrier2.wait(timeout=600)
                except threading.BrokenBarrierError:
                    pass
                work_same(jobs[i], outs_same[i])

            ths = [threading.Thread(target=runner, args=(i,)) for i in range(len(jobs))]
            t0 = time.time()
            for t in ths:
                t.start()
            for t in ths:
                t.join(timeout=900)
            if any(t.is_alive() for t in ths):
                res.inconclusive_because("watchdog: thread round did not finish within 900 s")
                break
            for i, (got, want) in enumerate(zip(outs, ref)):
                res.count("thread_results_compared", len(want))
                res.seen("cases", h("thread", ctx.shard, rnd, i))
                if got != want:
                    d = [(a, b) for a, b in zip(got, want) if a != b][:3]
                    res.violation("concurrent-result-differs-from-sequential", {"part": "threads", "thread": i, "round": rnd, "threads": len(jobs),
                                                                                "text": jobs[i]["own"][:2000]}, d, None)
            for i, (got, want) in enumerate(zip(outs_same, ref_same)):
                res.count("thread_results_compared", len(want))
                res.count("same_input_same_version_calls", len(want))
                if got != want:
                    d = [(a, b) for a, b in zip(got, want) if a != b][:3]
                    res.violation("concurrent-result-differs-from-sequential", {"part": "threads-same-input", "thread": i, "round": rnd,
                                                                                "threads": len(jobs), "text": shared[:2000]}, d, None)
            if core.fp(shared_root) != shared_fp:
                res.violation("shared-dictionary-modified-by-concurrent-pure-calls", {"part": "threads-same-input", "round": rnd}, None, None)
            res.count("thread_rounds")
    finally:
        inj.stop()
        sys.setswitchinterval(old)
    res.count("thread_switches_in_mappyfile", inj.switches)
    res.count("line_events_in_mappyfile", inj.events)
    res.count("yields_injected", inj.injected)
    res.maximum("distinct_switch_sites", len(inj.sites))
    res.maximum("threads", nthreads)
    for a, b in list(inj.sites)[:400]:  # (file, line) -> (file, line)
        res.seen("switch-sites", f"{a[0]}:{a[1]}->{b[0]}:{b[1]}")
    if len(res.samples) < 2:
        res.sample({"part": "threads", "threads": nthreads, "switches_observed": inj.switches,
                    "example_switch_sites": [f"{a[0]}:{a[1]}->{b[0]}:{b[1]}" for a, b in list(inj.sites)[:5]]})


def include_thread_workload(ctx):
    """Threads that open files with RELATIVE includes - one folder per thread, the same relative names, different content - while other
    threads load a text whose includes resolve against the working directory: resolution must not go through anything process-wide.
    Runs on every shard (short), with its own yield injection confined to mappyfile/parser.py."""
    import shutil

    import mappyfile

    res = ctx.res
    nthreads = 6
    fbase = tempfile.mkdtemp(prefix="mf-c12t-")
    old_cwd = os.getcwd()
    inc_text = 'MAP\n  INCLUDE "part.inc"\n  INCLUDE "sub/more.inc"\n  include sub/../part2.inc\nEND\n'
    for name in ["cwd"] + [f"t{i}" for i in range(nthreads)]:
        os.makedirs(os.path.join(fbase, name, "sub"), exist_ok=True)
        for rel, kw in (("part.inc", "NAME"), ("sub/more.inc", "SHAPEPATH"), ("part2.inc", "FONTSET")):
            with open(os.path.join(fbase, name, rel), "w") as f:
                f.write(f'{kw} "{rel}-of-{name}"\n')
        with open(os.path.join(fbase, name, "root.map"), "w") as f:
            f.write(inc_text)
    os.chdir(os.path.join(fbase, "cwd"))

    def work(i, out):
        fn = os.path.join(fbase, f"t{i}", "root.map")
        for rep in range(ctx.n(24, 160) // 8 + 1):
            for via in ("open", "loads-cwd", "load"):
                try:
                    if via == "open":
                        d = mappyfile.open(fn)
                    elif via == "load":
                        with open(fn, encoding="utf-8") as fp:
                            d = mappyfile.load(fp)
                    else:
                        d = mappyfile.loads(inc_text)
                    out.append((via, d.get("name"), d.get("shapepath"), d.get("fontset")))
                except Exception as ex:
                    out.append((via, "exc", type(ex).__name__, str(ex)[-60:]))

    ref = []
    for i in range(nthreads):
        o = []
        work(i, o)
        ref.append(o)
    old = sys.getswitchinterval()
    inj = trace.YieldInjector(os.path.join(core.REPO, "mappyfile", "parser.py"), p=0.08, seed=ctx.seed * 977 + ctx.shard)
    try:
        sys.setswitchinterval(1e-5)
        inj.start()
        outs = [[] for _ in range(nthreads)]
        barrier = threading.Barrier(nthreads)

        def runner(i):
            barrier.wait()
            work(i, outs[i])

        ths = [threading.Thread(target=runner, args=(i,)) for i in range(nthreads)]
        for t in ths:
            t.start()
        for t in ths:
            t.join(timeout=600)
        if any(t.is_alive() for t in ths):
            res.inconclusive_because("watchdog: include thread round did not finish within 600 s")
        else:
            for i, (got, want) in enumerate(zip(outs, ref)):
                res.count("include_thread_results_compared", len(want))
                if got != want:
                    d = [(a, b) for a, b in zip(got, want) if a != b][:3]
                    res.violation("concurrent-result-differs-from-sequential", {"part": "threads-relative-includes", "thread": i, "threads": nthreads}, d, None)
    finally:
        inj.stop()
        sys.setswitchinterval(old)
        if os.getcwd() != os.path.realpath(os.path.join(fbase, "cwd")) and os.getcwd() != os.path.join(fbase, "cwd"):
            res.violation("working-directory-changed-by-concurrent-calls", {"part": "threads-relative-includes"}, os.getcwd(), os.path.join(fbase, "cwd"))
        os.chdir(old_cwd)
        shutil.rmtree(fbase, ignore_errors=True)
    res.count("include_thread_switches", inj.switches)


def run(ctx):
    tmp = tempfile.mkdtemp(prefix="mf-c12-")
    try:
        # threads first: the purity contracts wrap the public functions and would serialise fingerprinting into the threads
        if not ctx.quick or ctx.shard % 4 == 0:
            thread_workload(ctx)
        include_thread_workload(ctx)
        reuse_workload(ctx)
        frontend_history_workload(ctx)
        purity_workload(ctx, tmp)
        if not ctx.quick and ctx.shard == 0:
            from .. import suite
            data, tail = suite.run_suite()
            if data is None:
                ctx.res.inconclusive_because("repository test-suite under contracts did not finish: " + str(tail)[-200:])
            else:
                ctx.res.count("suite_tests", data["tests"])
                ctx.res.count("suite_purity_evals", data["purity_evals"])
                for x in data["purity"]:
                    ctx.res.violation("under-repo-tests:" + x["kind"], {"part": "repo-suite", "test": x["test"], "case": x["case"]}, None, None)
        ctx.res.count("evaluations", ctx.res.counters["purity_evals"] + ctx.res.counters["reuse_comparisons"] + ctx.res.counters["thread_results_compared"])
    finally:
        import shutil
        shutil.rmtree(tmp, ignore_errors=True)


def replay(ctx, v):
    case = v["case"]
    print(str(case)[:3000])
    run(ctx)
