"""C19 - grammar, keyword tables and schemas describe one vocabulary.

Deciding monitors: finite enumeration under the parse / print / validate oracles of C02, C03 and C07 plus (a) the block
type list read from mapfile.lark at run time, (b) storage key/shape observed from loads("P C END END") and from the
auto-creating dict against the parent schema, (c) the `mappyfile` logger (the printer's "key ... was not found in the JSON
schema" ERROR record), (d) declared defaults judged against their own property schema, create() -> dumps -> loads -> validate.
"""
from __future__ import annotations

import copy
import hashlib

import jsonschema

from .. import core, expect, gen, printcheck, render, schemamodel, vocab
from ..engine import Engine
from ..mon import audit
from . import C09

RULE = ("exhaustive: every block type of the grammar at the root; every (parent, child) pair of the schemas; every (object, keyword, value "
        "alternative) x position (only/first/middle/last) x context (object as root and nested in every parent chain from MAP), every enum "
        "member in both cases (thorough); every declared default x every version bound; distinct = distinct (slot, position, context)")
EVAL_KEY = "evaluations"
DISTINCT_KEY = "cases"
EXHAUSTIVE = True
NSHARDS = {"quick": 8, "thorough": 16}
FLOORS = {"quick": {"slots_parsed": 3000, "slots_printed": 3000, "slots_validated": 3000, "distinct:slots": 380, "block_types_at_root": 19,
                    "parent_child_pairs": 20, "defaults_checked": 40, "create_cycles": 200},
          "thorough": {"slots_parsed": 5000, "slots_printed": 5000, "slots_validated": 5000, "distinct:slots": 380, "block_types_at_root": 19,
                       "parent_child_pairs": 20, "defaults_checked": 40, "create_cycles": 200}}
ASSUMPTIONS = ["representatives are written the way MapServer writes each alternative (DESIGN.md 1.2 lexeme rules)",
               "mf/vocab.py (schemas), mf/expect.py (text->dict contract), mf/printcheck.py (reader), mf/schemamodel.py (verdict)"]
DOMAIN = gen.DOMAIN


def h(*a):
    return hashlib.sha1(repr(a).encode()).hexdigest()[:12]


def wrap(r, chain, node):
    cur = node
    for parent_t in reversed(chain[:-1]):
        key = next(kk for kk, (c, mode) in vocab.child_slots(parent_t).items() if c == cur.type and not (kk == "symbol" and mode == "single"))
        pn = gen.Node(parent_t, C09.required_items(r, parent_t) + [gen.Item("block", key, shape="block", node=cur)])
        cur.parent = pn
        cur = pn
    return cur


def slot_is_gated(ctx, o, k, a, pos, chain, it):
    g = ctx.gated
    if "label-backgroundshadowsize-schema" in g and (o, k) == ("label", "backgroundshadowsize"):
        return "label-backgroundshadowsize-schema"
    if "symbol-block-alternative-unwritable" in g and a.kind == "block" and k == "symbol" and o in ("class", "style"):
        return "symbol-block-alternative-unwritable"
    if "querymap-style-keyword" in g and o == "querymap":
        # STYLE NORMAL followed by another keyword
        return None  # handled by gen.apply_gates (STYLE is moved last); the slot itself is still swept
    return None


def run(ctx):
    eng = Engine(public_every=0)
    res = ctx.res
    r = ctx.rng("c19")
    logs = audit.LogObserver()
    import mappyfile
    from mappyfile.ordereddict import CaseInsensitiveOrderedDict as CI

    # ---- (1) every block type of the grammar has a schema and parses / prints at the root
    if ctx.shard == 0:
        for t in vocab.grammar_block_types():
            case = {"part": "root-block", "type": t}
            if t not in vocab.raw():
                res.violation("block-type-without-schema", case, t, "a schema file")
                continue
            try:
                d = eng.loads(f"{t.upper()} END")
                out = eng.dumps(d)
                d2 = eng.loads(out)
                ok = isinstance(d, dict) and d.get("__type__") == t and core.plain(d2) == core.plain(d) and out.split() == [t.upper(), "END"]
            except Exception as ex:
                ok = False
                out = f"{type(ex).__name__}: {str(ex)[:200]}"
            res.count("block_types_at_root")
            if not ok:
                res.violation("block-type-not-parsed-or-printed-at-root", case, out, f"{t.upper()} END")
        missing = set(vocab.object_types()) - set(vocab.grammar_block_types())
        if missing:
            res.violation("schema-object-type-unknown-to-the-grammar", {"part": "root-block"}, sorted(missing), None)
        for t in ("metadata", "validation", "connectionoptions"):
            try:
                d = eng.loads(f'{t.upper()} "a" "b" END')
                out = eng.dumps(d)
                if core.plain(eng.loads(out)) != core.plain(d) or d.get("__type__") != t:
                    res.violation("key-value-block-not-round-tripped-at-root", {"part": "root-block", "type": t}, out, None)
            except Exception as ex:
                res.violation("key-value-block-not-parsed-at-root", {"part": "root-block", "type": t}, f"{type(ex).__name__}", None)
        # ---- (2) storage of every (parent, child) pair: transformer, auto-creating dict, printer vs parent schema
        for parent in vocab.object_types() + ("symbolset",):
            for key, (child, mode) in vocab.child_slots(parent).items():
                case = {"part": "storage", "parent": parent, "child": child, "schema_key": key, "schema_shape": mode}
                if key == "symbol" and mode == "single":
                    if "symbol-block-alternative-unwritable" in ctx.gated:
                        res.count("gated:symbol-block-alternative-unwritable")
                        continue
                res.count("parent_child_pairs")
                req = "".join(f" {render.render([gen.Node('x', [it])]).text.split(chr(10))[1].strip()}" for it in C09.required_items(r, child))
                text = f"{parent.upper()} {child.upper()}{req} END END"
                try:
                    d = eng.loads(text)
                except Exception as ex:
                    res.violation("child-block-not-parsed-in-parent", dict(case, text=text), f"{type(ex).__name__}: {str(ex)[:150]}", None)
                    continue
                got_keys = [k for k in d.keys() if k != "__type__"]
                v = d.get(key) if key in d.keys() else None
                shape_ok = (mode == "list" and isinstance(v, list) and len(v) == 1 and v[0].get("__type__") == child) or \
                           (mode == "single" and isinstance(v, dict) and v.get("__type__") == child)
                if not shape_ok:
                    res.violation("child-stored-under-different-key-or-shape-than-parent-schema", dict(case, text=text), got_keys,
                                  f"{key} as {mode}")
                    continue
                # auto-creating dict
                # ... on a fresh dictionary and on a parsed parent that has no such child, the key read in every letter case
                holders = [("fresh", CI(CI))]
                try:
                    holders.append(("parsed-parent-without-the-child", eng.loads(f"{parent.upper()} END")))
                except Exception:
                    pass
                for hname, holder in holders:
                    for spelled in (key, key.upper(), key.title(), key[:1] + key[1:].upper()):
                        holder.pop(key, None)
                        res.count("auto_created_reads")
                        got = holder[spelled]
                        if mode == "list" and (not isinstance(got, list) or got != []):
                            res.violation("auto-creating-dict-disagrees-on-list-key", dict(case, holder=hname, key_as_read=spelled), repr(got), "[]")
                        if mode == "single" and isinstance(got, list):
                            res.violation("auto-creating-dict-treats-singleton-as-list", dict(case, holder=hname, key_as_read=spelled), repr(got), "not a list")
                # printer + validator agree
                out = eng.dumps(d)
                rep = printcheck.check(d, out, dict(quote='"', newlinechar="\n", indent=4, unit="    ", spacer=None, end_comment=False, align_values=False))
                if rep.content:
                    res.violation("printer-disagrees-on-child-storage", dict(case, text=out), rep.content[:2], None)
    else:
        res.count("block_types_at_root", 0)
    # ---- (3) the vocabulary sweep
    slots = gen.vocab_slots()
    idx = 0
    for (o, k, ai) in slots:
        p = vocab.prop(o, k)
        a = p.alts[ai]
        chains_ = [[o]] + [c for c in C09.chains(o) if len(c) > 1]
        members = [None]
        if a.kind == "enum" and k != "projection":
            members = a.info["members"] if not ctx.quick else [None, a.info["members"][0], a.info["members"][-1]]
        for chain in chains_:
            for pos in ("only", "first", "middle", "last"):
                for m in members:
                    idx += 1
                    if not ctx.mine(idx):
                        continue
                    if len(chain) > 1 and pos == "middle" and ctx.quick:
                        continue
                    gated = slot_is_gated(ctx, o, k, a, pos, chain, None)
                    if gated:
                        res.count("gated:" + gated)
                        continue
                    node, it = gen.vocab_doc(r, o, k, ai, pos, member=m, enum_case=r.choice(["upper", "lower"]) if m is not None else None)
                    node.items = C09.required_items(r, o) + [x for x in node.items if x.key not in vocab.required(o) or x is it] \
                        if k not in vocab.required(o) else node.items
                    if pos in ("only", "first") and node.items and node.items[0] is not it and it in node.items:
                        node.items.remove(it)
                        node.items.insert(0, it)
                    if it.kind == "block":
                        have = {x.key for x in it.node.items}
                        it.node.items = [x for x in C09.required_items(r, it.node.type) if x.key not in have] + it.node.items
                    root = wrap(r, chain, node)
                    gen.apply_gates(root, ctx.gated)
                    text = render.render([root]).text
                    slot = f"{o}.{k}:{a.kind}"
                    case = {"part": "sweep", "slot": slot, "position": pos, "context": ">".join(chain), "member": m, "text": text}
                    res.seen("slots", slot)
                    res.seen("cases", h(slot, pos, chain, m))
                    res.seen("contexts", ">".join(chain))
                    # parse
                    try:
                        d = eng.loads(text)
                    except Exception as ex:
                        res.violation("schema-slot-not-parseable", case, f"{type(ex).__name__}: {str(ex)[:200]}", "a dictionary")
                        continue
                    diff = expect.compare(expect.expect_doc([root]), d)
                    res.count("slots_parsed")
                    if diff:
                        res.violation("schema-slot-parsed-differently", case, diff, None)
                        continue
                    # print: found by the printer's lookup, read back independently
                    logs.take()
                    try:
                        out = eng.dumps(d)
                    except Exception as ex:
                        res.violation("schema-slot-not-printable", case, f"{type(ex).__name__}: {str(ex)[:200]}", None)
                        continue
                    errs = [mm for lv, mm in logs.take() if lv == "ERROR" and "not found in the JSON schema" in mm]
                    if errs:
                        res.violation("printer-lookup-does-not-find-schema-keyword", case, errs[:2], None)
                    rep = printcheck.check(d, out, dict(quote='"', newlinechar="\n", indent=4, unit="    ", spacer=None, end_comment=False,
                                                        align_values=False))
                    res.count("slots_printed")
                    if rep.skipped:
                        res.count("print_precondition_skipped")
                    elif rep.content:
                        res.violation("schema-slot-printed-wrongly", dict(case, out=out), rep.content[:2], None)
                    else:
                        try:
                            d2 = eng.loads(out)
                        except Exception as ex:
                            res.violation("printed-schema-slot-not-reloadable", dict(case, out=out), f"{type(ex).__name__}: {str(ex)[:200]}", None)
                    # validate
                    try:
                        msgs = eng.validator.validate(copy.deepcopy(d), schema_name=chain[0])
                    except Exception as ex:
                        res.violation("schema-slot-validate-raises", case, f"{type(ex).__name__}: {str(ex)[:200]}", None)
                        continue
                    res.count("slots_validated")
                    if msgs:
                        res.violation("schema-slot-does-not-validate", case, [(mm["message"], mm["error"][:120]) for mm in msgs[:3]], "zero messages")
                    elif pos == "first":
                        # ... and as the command line loads it: positions and comments recorded (hidden keys every block schema admits)
                        try:
                            db = eng.loads(text, include_position=True, include_comments=True)
                            mb = eng.validator.validate(db, schema_name=chain[0])
                            res.count("slots_validated_with_bookkeeping")
                            if mb:
                                res.violation("schema-slot-does-not-validate", dict(case, loaded="include_position + include_comments"),
                                              [(mm["message"], mm["error"][:120]) for mm in mb[:3]], "zero messages")
                        except Exception as ex:
                            res.violation("schema-slot-validate-raises", dict(case, loaded="include_position + include_comments"),
                                          f"{type(ex).__name__}: {str(ex)[:200]}", None)
                    if len(res.samples) < 2 and len(chain) == 3 and a.kind not in ("string", "number"):
                        res.sample({"slot": slot, "position": pos, "context": ">".join(chain), "text": text})
    # ---- (4) defaults and create()
    if ctx.shard == 1 % ctx.nshards:
        for o in vocab.object_types():
            for k, p in vocab.props(o).items():
                if not p.has_default:
                    continue
                if "label-backgroundshadowsize-schema" in ctx.gated and (o, k) == ("label", "backgroundshadowsize"):
                    res.count("gated:label-backgroundshadowsize-schema")
                    continue
                res.count("defaults_checked")
                node = {kk: vv for kk, vv in vocab.inlined(o)["properties"][k].items() if kk not in ("default", "metadata")}
                errs = list(jsonschema.Draft4Validator(node).iter_errors(schemamodel.lower_json(p.default)))
                if errs:
                    res.violation("declared-default-invalid-for-its-own-keyword", {"part": "defaults", "slot": f"{o}.{k}", "default": p.default},
                                  errs[0].message[:200], None)
            vb = vocab.version_bounds()
            # the bounds themselves, one version strictly inside every interval between two neighbouring bounds, one above the last
            mids = [round((a + b) / 2, 2) for a, b in zip(vb, vb[1:])] + [round(vb[-1] + 0.3, 2)]
            for v in [None] + vb + mids:
                case = {"part": "create", "type": o, "version": v}
                res.count("create_cycles")
                try:
                    d = mappyfile.create(o, v)
                    if "label-backgroundshadowsize-schema" in ctx.gated and o == "label":
                        d.pop("backgroundshadowsize", None)
                    out = eng.dumps(d)
                    d2 = eng.loads(out)
                    msgs = eng.validator.validate(d2, schema_name=o, version=v)
                except Exception as ex:
                    res.violation("create-output-does-not-print-reload-validate", case, f"{type(ex).__name__}: {str(ex)[:200]}", None)
                    continue
                bad = [mm for mm in msgs if "is a required property" not in mm["error"]]
                if bad:
                    res.violation("create-output-invalid", dict(case, out=out), [(mm["message"], mm["error"][:120]) for mm in bad[:3]],
                                  "only missing-required messages")
                if "__type__" not in d2 or d2["__type__"] != o:
                    res.violation("create-output-reloads-as-other-type", dict(case, out=out), d2.get("__type__"), o)
                # every create() call yields the declared defaults, whatever was done to objects created earlier: edit every
                # mutable default of this object in place, then create again (twice: fresh call and the call after that)
                first = core.fp(d)
                edited = 0
                for kk, vv in list(d.items()):
                    if isinstance(vv, list):
                        vv.append(9999)
                        if vv:
                            vv[0] = -12345
                        edited += 1
                    elif isinstance(vv, dict):
                        vv["edited"] = True
                        edited += 1
                if edited:
                    res.count("create_after_edit_cycles")
                    res.count("create_mutable_defaults_edited", edited)
                for again in (1, 2):
                    d3 = mappyfile.create(o, v)
                    if "label-backgroundshadowsize-schema" in ctx.gated and o == "label":
                        d3.pop("backgroundshadowsize", None)
                    if core.fp(d3) != first:
                        res.violation("create-result-depends-on-edits-of-an-earlier-result", dict(case, again=again),
                                      core.canon(d3), "the declared defaults")
                        break
    else:
        res.count("defaults_checked", 0)
    res.count("evaluations", res.counters["slots_parsed"] + res.counters["parent_child_pairs"] + res.counters["create_cycles"] +
              res.counters["defaults_checked"] + res.counters["block_types_at_root"])


def replay(ctx, v):
    eng = Engine(public_every=0)
    case = v["case"]
    if "text" in case:
        try:
            d = eng.loads(case["text"])
            print(d)
            print(eng.dumps(d))
            print(eng.validator.validate(d, schema_name=d["__type__"]))
        except Exception as ex:
            ctx.res.violation(v["kind"], case, f"{type(ex).__name__}: {str(ex)[:200]}", None)
