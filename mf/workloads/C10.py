"""C10 - expression rewriting preserves structure.

Deciding monitor: boundary relation between the intended tree (known to the generator) and the string stored by
the real parser+transformer, read back with an independent tokenizer + precedence parser (mf/exprmodel.py);
fixed-point relation on re-parsing; printer prints the stored string unquoted.
"""
from __future__ import annotations

import copy
import hashlib
import json

from .. import core, vocab
from .. import exprmodel as X

RULE = ("intended expression trees (exhaustive operator structures up to the size bound, random beyond) over all operator "
        "spellings and leaf kinds, rendered with minimal + random redundant parentheses into CLASS EXPRESSION / LAYER FILTER / "
        "CLASS TEXT / STYLE GEOMTRANSFORM / CLUSTER GROUP / CLUSTER FILTER; the stored string is parsed with the property's "
        "precedence table and compared with the intended tree; distinct = distinct source expression text; non-trivial = "
        "at least one operator")
EVAL_KEY = "evaluations"
DISTINCT_KEY = "sources"
NSHARDS = {"quick": 8, "thorough": 16}
FLOORS = {"quick": {"trees_judged": 25000, "fixed_point_checks": 25000, "distinct:adjacencies": 80, "verbatim_checks": 1500, "printed_in_context": 2500},
          "thorough": {"trees_judged": 400000, "fixed_point_checks": 400000, "distinct:adjacencies": 90,
                       "verbatim_checks": 30000, "printed_in_context": 30000}}
ASSUMPTIONS = ["mf/exprmodel.py (tokenizer + precedence parser, 150 lines) restates MapServer's precedence as given in the property",
               "numeric operands are compared by value (1.50 and 1.5 are the same operand)"]
DOMAIN = ["binary operators are written with spaces on both sides (the lexer's signed-number and unquoted-string terminals make "
          "'[a]-1' and '--' different token sequences)", "NOT only at the top or under AND/OR/NOT",
          "function-call arguments are simple operands", "nesting depth <= 20",
          "regular expressions do not start with '*' ('/*' opens a comment) and contain no '/'",
          "number-like list elements are not preceded by a space ('{a, 1.50}' is lexed as ' 1' followed by '.50')"]

HOSTS = [("class", "expression", "CLASS\nEXPRESSION {}\nEND"), ("layer", "filter", "LAYER\nFILTER {}\nEND"),
         ("class", "text", "CLASS\nTEXT {}\nEND"), ("style", "geomtransform", "STYLE\nGEOMTRANSFORM {}\nEND"),
         ("cluster", "group", "CLUSTER\nGROUP {}\nEND"), ("cluster", "filter", "CLUSTER\nFILTER {}\nEND"),
         ("layer", "geomtransform", "LAYER\nGEOMTRANSFORM {}\nEND"), ("label", "text", "LABEL\nTEXT {}\nEND"),
         ("label", "expression", "LABEL\nEXPRESSION {}\nEND")]


class Engine:
    def __init__(self):
        from mappyfile.parser import Parser
        from mappyfile.pprint import PrettyPrinter
        from mappyfile.transformer import MapfileToDict

        self.p = Parser(expand_includes=False)
        self.m = MapfileToDict()
        self.pp = PrettyPrinter()

    def loads(self, text):
        return self.m.transform(self.p.parse(text))


def src_hash(s):
    return hashlib.sha1(s.encode()).hexdigest()[:12]


def judge_tree(ctx, eng, tree, r, host_i, redundant, use_public=False):
    import mappyfile

    res = ctx.res
    src = "(" + X.render(tree, r, redundant) + ")"
    typ, key, tmpl = HOSTS[host_i % len(HOSTS)]
    text = tmpl.format(src)
    case = {"host": f"{typ}.{key}", "source": src, "tree": tree}
    res.count("trees_generated")
    try:
        d = mappyfile.loads(text) if use_public else eng.loads(text)
    except Exception as ex:
        res.violation("expression-not-accepted", case, f"{type(ex).__name__}: {str(ex)[:200]}", "a dictionary")
        return
    stored = d.get(key)
    res.count("trees_judged")
    res.count("host:" + typ + "." + key)
    nops = X.count_ops(tree)
    res.count(f"ops={min(nops, 12)}")
    if nops:
        res.seen("sources", src_hash(src))
    adj = set()
    X.adjacencies(tree, adj)
    for a in adj:
        res.seen("adjacencies", a)
    if not isinstance(stored, str) or not (stored.startswith("(") and stored.endswith(")")):
        res.violation("stored-not-parenthesised-string", case, stored, "( ... )")
        return
    try:
        got = X.erase(X.parse(stored))
    except X.ExprSyntaxError as ex:
        res.violation("stored-string-unreadable", case, stored, str(ex))
        return
    want = X.erase(tree)
    if got != want:
        res.violation("structure-changed", case, {"stored": stored, "tree": got}, {"tree": want})
        return
    if _has_symbol_logic(stored):
        res.violation("logical-spelling-not-normalised", case, stored, "AND / OR / NOT")
    # fixed point
    res.count("fixed_point_checks")
    try:
        d2 = eng.loads(tmpl.format(stored))
        if d2.get(key) != stored:
            res.violation("not-a-fixed-point", case, d2.get(key), stored)
    except Exception as ex:
        res.violation("stored-string-not-reparsable", case, f"{type(ex).__name__}: {str(ex)[:200]}", stored)
    # printed unquoted
    out = eng.pp.pprint(d)
    lines = [l.strip() for l in out.split("\n")]
    want_stmt = f"{key.upper()} {stored}"
    # (a literal may hold a line break: then the statement runs over several output lines)
    if (want_stmt not in lines) if "\n" not in stored else (("\n    " + want_stmt + "\n") not in out):
        res.violation("stored-expression-not-printed-verbatim-unquoted", case, out, f"{key.upper()} {stored}")
    if res.counters["trees_judged"] % 5 == 0 and "\n" not in stored:
        # the same object printed by ONE printer call together with objects of other types that carry the same keyword as plain text
        # (LAYER GROUP "g" next to CLUSTER GROUP (...)), before and after it: what is written for the expression does not depend on it
        others = []
        for o in vocab.object_types():
            if o != typ and key in vocab.props(o) and "string" in vocab.props(o)[key].kinds():
                od = {"__type__": o}
                for req in vocab.required(o):
                    od[req] = {"name": "ctx", "type": "point"}.get(req, "x")
                od[key] = "plain text"
                others.append(od)
        if others:
            res.count("printed_in_context")
            for roots in (others + [d], [d] + others):
                try:
                    out = mappyfile.dumps(copy.deepcopy(roots))  # (a fresh printer per call: nothing carried over from earlier prints)
                except Exception as ex:
                    res.violation("context-document-does-not-print", dict(case, context=[o["__type__"] for o in others]), f"{type(ex).__name__}: {str(ex)[:200]}", None)
                    break
                if want_stmt not in [l.strip() for l in out.split("\n")]:
                    res.violation("stored-expression-not-printed-verbatim-unquoted", dict(case, context=[o["__type__"] for o in roots]), out[:1500],
                                  f"{key.upper()} {stored}")
                    break
    if len(res.samples) < 3 and nops >= 3:
        res.sample({"host": f"{typ}.{key}", "source": src, "stored": stored})


def _has_symbol_logic(stored):
    """&& || ! as OPERATORS of the stored string (the same characters inside a string literal are content)."""
    toks = X.tokenize(stored)
    return any(k == "op" and v in ("!", "&&", "||") for k, v in toks)


VERBATIM = [
    ("class", "expression", "{a,b c,d}"), ("class", "expression", "{a, b}"), ("class", "expression", "{1,2,3}"),
    ("class", "expression", "/^a.*b$/"), ("class", "expression", "/ab+c/i"), ("class", "expression", "/a b/"),
    ("layer", "filter", "/x|y/"), ("class", "expression", "\\\\ab\\\\"), ("class", "text", "[name]"),
    ("class", "expression", "[name]"), ("style", "geomtransform", "(buffer([shape],5))"),
    ("class", "text", '(tostring([area],"%.2f"))'), ("class", "text", "(round([a],2))"),
    ("cluster", "group", '("[name]")'),
]


def verbatim(ctx, eng, r):
    """List expressions, regular expressions, function calls and bindings keep their elements verbatim."""
    res = ctx.res
    words = ["a", "b c", "d-e", "x_1", "it's", "10", "A:B", "007", "01234", "1.50", "2.00", "+5", "1e3", "-0", "true", "NULL"]
    cases = list(VERBATIM)
    for _ in range(ctx.n(2400, 48000)):
        k = r.random()
        if k < 0.35:
            els = [r.choice(words) for _ in range(r.randint(1, 5))]
            sep = r.choice([",", ", ", " ,"])
            if any(e[:1] in "0123456789+-." for e in els):
                sep = ","  # a number-like element after a space is lexed as ' 1' + '.50' (tokenisation fact, like '[a]-1')
            cases.append(("class", "expression", "{" + sep.join(els) + "}"))
        elif k < 0.6:
            body = "".join(r.choice("ab^$.*+|[]() 09") for _ in range(r.randint(1, 10)))
            if "/" in body or not body.strip() or body.startswith("*"):  # "/*" opens a C comment
                continue
            cases.append((r.choice([("class", "expression"), ("layer", "filter")])) + ("/" + body + "/" + r.choice(["", "i"]),))
        elif k < 0.8:
            fn = r.choice(X.FUNCS)
            args = [X.render(("leaf",) + r.choice(X.LEAF_POOL[:9]), r) for _ in range(r.randint(1, 3))]
            cases.append(("class", "text", "(" + fn + "(" + ",".join(args) + "))"))
        else:
            cases.append((r.choice([("class", "text"), ("class", "expression")])) + ("[" + r.choice(["a", "NAME", "b_1", "x:y"]) + "]",))
    tm = {(t, k): tmpl for t, k, tmpl in HOSTS}
    for typ, key, src in cases:
        tmpl = tm.get((typ, key))
        if tmpl is None:
            continue
        case = {"host": f"{typ}.{key}", "source": src}
        res.count("verbatim_checks")
        res.seen("sources", src_hash(src))
        try:
            stored = eng.loads(tmpl.format(src)).get(key)
        except Exception as ex:
            res.violation("verbatim-source-not-accepted", case, f"{type(ex).__name__}: {str(ex)[:200]}", "a dictionary")
            continue
        if src.startswith("{"):
            want_els = [e for e in src[1:-1].split(",")]
            got_els = stored[1:-1].split(",") if isinstance(stored, str) and stored.startswith("{") else None
            ok = got_els is not None and [e.strip() for e in got_els] == [e.strip() for e in want_els]
            res.count("verbatim:list")
        elif src.startswith("(") and src.count("(") >= 2:
            # function call: elements verbatim, possibly wrapped in grouping parentheses
            try:
                ok = X.erase(X.parse(stored)) == X.erase(X.parse(src))
            except Exception:
                ok = False
            res.count("verbatim:call")
        else:
            ok = stored == src
            res.count("verbatim:" + ("regex" if src[0] in "/\\" else "binding" if src[0] == "[" else "other"))
        if not ok:
            res.violation("elements-not-verbatim", case, stored, src)
            continue
        try:
            again = eng.loads(tmpl.format(stored)).get(key)
            if again != stored:
                res.violation("not-a-fixed-point", case, again, stored)
        except Exception as ex:
            res.violation("stored-string-not-reparsable", case, f"{type(ex).__name__}: {str(ex)[:200]}", stored)


def run(ctx):
    eng = Engine()
    res = ctx.res
    r = ctx.rng("c10")
    gate_mod = "mod-at-comparison-level" in ctx.gated
    maxops = 3 if ctx.quick else 4
    i = 0
    # exhaustive operator structures up to maxops operators
    for nops in range(0, maxops + 1):
        for shape in X.enum_shapes(nops):
            i += 1
            if not ctx.mine(i):
                continue
            reps = 3 if nops < 3 else (2 if nops == 3 else 1)
            for rep in range(reps):
                tree = X.fill(shape, r, rich=(rep == reps - 1))
                if gate_mod and X.unsafe_mod(tree):
                    res.count("gated:mod-at-comparison-level")
                    continue
                judge_tree(ctx, eng, tree, r, i + rep, redundant=(0.0 if rep == 0 else 0.25))
            res.count("shapes_enumerated")
    # random larger trees
    n = ctx.n(24000, 400000)
    maxn = 8 if ctx.quick else 12
    j = 0
    while j < n:
        tree = X.rand_tree(r, r.randint(1, maxn), rich=r.random() < 0.5)
        if gate_mod and X.unsafe_mod(tree):
            res.count("gated:mod-at-comparison-level")
            continue
        j += 1
        judge_tree(ctx, eng, tree, r, j, redundant=r.choice([0.0, 0.1, 0.3]), use_public=(j % 400 == 0))
    # deep chains / nesting (bounded at 20)
    for depth in (5, 10, 20):
        t = ("leaf", "bind", "[a]")
        for d in range(depth):
            t = ("bin", r.choice(["+", "-", "*", "/"]), ("grp", t) if d % 2 else t, ("leaf", "int", str(d)))
        judge_tree(ctx, eng, ("cmp", ">", t, ("leaf", "int", "1")), r, depth, 0.0)
        t = ("cmp", "=", ("leaf", "bind", "[a]"), ("leaf", "int", "0"))
        for d in range(depth):
            t = (r.choice(["and", "or"]), t, ("cmp", "<", ("leaf", "bind", "[b_1]"), ("leaf", "int", str(d))))
        judge_tree(ctx, eng, t, r, depth + 1, 0.0)
    verbatim(ctx, eng, r)
    res.count("evaluations", res.counters["trees_judged"] + res.counters["verbatim_checks"])


def replay(ctx, v):
    eng = Engine()
    case = v["case"]
    host = case["host"]
    idx = [i for i, (t, k, _) in enumerate(HOSTS) if f"{t}.{k}" == host][0]
    if "tree" in case:
        tree = _tuplify(case["tree"])

        class R:  # replays the recorded source verbatim
            pass

        src = case["source"]
        typ, key, tmpl = HOSTS[idx]
        d = eng.loads(tmpl.format(src))
        stored = d.get(key)
        got = X.erase(X.parse(stored))
        if got != X.erase(tree):
            ctx.res.violation("structure-changed", case, {"stored": stored, "tree": got}, {"tree": X.erase(tree)})
        elif eng.loads(tmpl.format(stored)).get(key) != stored:
            ctx.res.violation("not-a-fixed-point", case, eng.loads(tmpl.format(stored)).get(key), stored)


def _tuplify(x):
    if isinstance(x, list):
        return tuple(_tuplify(i) for i in x)
    return x
