"""C08 - recorded positions and validation error locations are exact.

Deciding monitor: contract on the parse result with the RENDERER'S OWN TOKEN MAP as ground truth (it emitted every token
and knows its 1-based line and code-point column); renderer-free contract on the corpus (the source text at a recorded
position starts with the key / type name); error locations by fault injection with known positions.
"""
from __future__ import annotations

import hashlib
import os

from .. import core, corpus, engine, gen, render, valcheck, vocab
from ..engine import Engine

RULE = ("generated documents x surface renderings (several keywords per line, values spread over lines, tabs, form feeds, CRLF, # and "
        "multi-line /* */ comments, multi-line strings before the token) loaded with include_position=True: every object / keyword "
        "position compared with the renderer's token map, value positions checked for source order; 1-2 injected faults per document: "
        "message (line, column) set compared with the faulty keyword's / enclosing opener's position; corpus files under the "
        "renderer-free contract; a quarter of the documents go through open(file) / load(stream) instead of loads (strings and comments hold "
        "text that is not in a Unicode normal form); distinct = distinct rendered text")
EVAL_KEY = "positions_compared"
DISTINCT_KEY = "documents"
NSHARDS = {"quick": 8, "thorough": 16}
FLOORS = {"quick": {"positions_compared": 80000, "documents_checked": 3500, "fault_locations_checked": 2000, "corpus_positions_checked": 15000,
                    "distinct:layout-before-token": 12, "positions_through_file_front_ends": 700},
          "thorough": {"positions_compared": 600000, "documents_checked": 30000, "fault_locations_checked": 25000,
                       "corpus_positions_checked": 15000, "distinct:layout-before-token": 14, "positions_through_file_front_ends": 7000}}
ASSUMPTIONS = ["mf/render.py tracks (line, column) of every token it writes: a line break is counted at LF only (CRLF = one break), a tab is one column"]
DOMAIN = gen.DOMAIN + ["include-free text; for a keyword written twice in one object the position compared is that of the last occurrence (the one whose value the dictionary holds)"]


def h(s):
    return hashlib.sha1(s.encode()).hexdigest()[:12]


def pos_of(pd):
    return (pd.get("line"), pd.get("column")) if isinstance(pd, dict) else None


def check_values(res, case, pd, kwpos, path):
    vals = pd.get("values") if isinstance(pd, dict) else None
    if vals is None:
        return
    res.count("value_lists_checked")
    vals = [tuple(v) for v in vals]
    if vals != sorted(vals):
        res.violation("value-positions-not-in-source-order", case, {"path": path, "values": vals[:8]}, None)
    elif vals and vals[0] < kwpos:
        res.violation("value-position-before-its-keyword", case, {"path": path, "values": vals[:4], "keyword": kwpos}, None)


def check_node(res, case, node, d, path="$"):
    """Compare the positions recorded in dictionary d with the tokens of IR node."""
    pd = d.get("__position__")
    if not isinstance(pd, dict):
        res.violation("object-without-position", case, path, None)
        return
    res.count("positions_compared")
    if pos_of(pd) != node.kw.pos:
        res.violation("object-position-wrong", case, {"path": path, "recorded": pos_of(pd)}, {"opener": node.kw.pos})
    slots = vocab.child_slots(node.type)
    list_index = {}
    seen_repeat = {}
    npoints = sum(1 for it in node.items if it.kind == "pairs" and it.key == "points")
    pi = 0
    for it in node.items:
        k = it.key
        kp = f"{path}.{k}"
        if it.kind == "block":
            if slots[k][1] == "list":
                i = list_index.get(k, 0)
                list_index[k] = i + 1
                check_node(res, case, it.node, d[k][i], f"{kp}[{i}]")
            else:
                check_node(res, case, it.node, d[k], kp)
            continue
        if it.kind == "kv":
            sub = d[k].get("__position__")
            res.count("positions_compared")
            if pos_of(sub) != it.kw.pos:
                res.violation("key-value-block-position-wrong", case, {"path": kp, "recorded": pos_of(sub)}, {"keyword": it.kw.pos})
            else:
                check_values(res, case, sub, it.kw.pos, kp)
            continue
        rec = pd.get(k)
        if it.kind == "attr" and any(x is not it and x.kind == "attr" and x.key == k for x in node.items):
            # a keyword written twice in one object: the dictionary holds the value of the LAST occurrence, and the recorded position
            # (which validation messages about that value carry) is that occurrence's
            if it is not [x for x in node.items if x.kind == "attr" and x.key == k][-1]:
                res.count("duplicated_keyword_earlier_occurrence_skipped")
                continue
            res.count("duplicated_keyword_last_occurrence_compared")
        if it.kind == "repeat":
            i = seen_repeat.get(k, 0)
            seen_repeat[k] = i + 1
            rec = rec[i] if isinstance(rec, list) and i < len(rec) else None
        elif it.kind == "config":
            sub = it.toks[0].text.lower()
            if sum(1 for x in node.items if x.kind == "config" and x.toks[0].text.lower() == sub) > 1:
                res.count("duplicated_config_key_not_compared")
                continue
            rec = rec.get(sub) if isinstance(rec, dict) else None
        elif it.kind == "pairs" and k == "points" and npoints > 1:
            rec = rec[pi] if isinstance(rec, list) and pi < len(rec) else None
            pi += 1
        res.count("positions_compared")
        if not isinstance(rec, dict) or pos_of(rec) != it.kw.pos:
            res.violation("keyword-position-wrong", case, {"path": kp, "recorded": pos_of(rec) if isinstance(rec, dict) else repr(rec)[:80]},
                          {"keyword": it.kw.pos})
        else:
            check_values(res, case, rec, it.kw.pos, kp)


def corpus_contract(res, case, text, d):
    """Renderer-free: the source text at a recorded (line, column) starts, case-insensitively, with the key / type name."""
    lines = text.split("\n")

    def at(pd, name):
        res.count("corpus_positions_checked")
        try:
            seg = lines[pd["line"] - 1][pd["column"] - 1:pd["column"] - 1 + len(name)]
        except Exception:
            seg = None
        if seg is None or seg.lower() != name.lower():
            res.violation("recorded-position-does-not-point-at-its-keyword", case, {"name": name, "position": pos_of(pd), "found": seg}, None)

    def walk(x):
        if isinstance(x, list):
            for i in x:
                walk(i)
            return
        if not isinstance(x, dict) or "__position__" not in x:
            return
        pd = x["__position__"]
        t = x.get("__type__")
        if t == "symbolset":
            pass
        elif isinstance(t, str):
            at(pd, t)
        for k, v in pd.items():
            if k in ("line", "column", "values"):
                continue
            for one in (v if isinstance(v, list) else [v]):
                if isinstance(one, dict) and "line" in one:
                    at(one, k)
                    vals = [tuple(p) for p in one.get("values", [])]
                    if vals != sorted(vals):
                        res.violation("value-positions-not-in-source-order", case, {"key": k, "values": vals[:6]}, None)
                elif isinstance(one, dict) and k == "config":
                    for sk, sp in one.items():
                        at(sp, "config")
        for k, v in x.items():
            if k not in ("__position__", "__comments__"):
                walk(v)

    walk(d)


def run(ctx):
    import shutil
    import tempfile

    tmpdir = tempfile.mkdtemp(prefix="mf-c08-")
    try:
        _run(ctx, tmpdir)
    finally:
        shutil.rmtree(tmpdir, ignore_errors=True)


def _run(ctx, tmpdir):
    eng = Engine(public_every=100)
    res = ctx.res
    r = ctx.rng("c08")
    n = ctx.n(1600, 16000)
    for j in range(n):
        nodes = gen.gen_document(r, gen.GenOpts(gated=ctx.gated, p_key=r.choice([0.2, 0.4]), dup=0.08 if j % 3 == 0 else 0.0,
                                                symbol_files="symbolset-root-bookkeeping" not in ctx.gated))
        for s in [render.CANONICAL] + render.surfaces(r, 2 if ctx.quick else 3):
            s.gap_comments = r.choice([0.0, 0.2, 0.4])
            rr = render.render(nodes, s, r)
            text = rr.text
            case = {"part": "positions", "text": text[:6000], "surface": s.describe()}
            with_comments = (j % 2 == 1)
            via = ("loads", "loads", "loads", "open", "loads", "loads", "loads", "load")[(j // 2) % 8]
            case["via"] = via
            try:
                if via == "loads" or engine._DIRECTIVE.search(text):
                    d = eng.loads(text, include_position=True, include_comments=with_comments)
                else:
                    # the file front ends report positions in the file's text
                    fn = os.path.join(tmpdir, "doc.map")
                    with open(fn, "w", encoding="utf-8", newline="") as f:
                        f.write(text)
                    if via == "open":
                        d = eng.mf.open(fn, include_position=True, include_comments=with_comments)
                    else:
                        with open(fn, encoding="utf-8", newline="") as f:
                            d = eng.mf.load(f, include_position=True, include_comments=with_comments)
                    res.count("positions_through_file_front_ends")
            except Exception as ex:
                res.count("rendering_not_accepted")
                continue
            res.count("positions_with_comments_kept" if with_comments else "positions_plain")
            case["include_comments"] = with_comments
            res.count("documents_checked")
            res.seen("documents", h(text))
            for g in rr.gaps:
                res.seen("layout-before-token", g[1])
            roots = d if isinstance(d, list) else [d]
            if len(roots) != len(nodes):
                res.violation("root-count-differs", case, len(roots), len(nodes))
                continue
            for nd, dd in zip(nodes, roots):
                try:
                    check_node(res, case, nd, dd)
                except (KeyError, IndexError, TypeError) as ex:
                    res.violation("position-structure-unexpected", case, f"{type(ex).__name__}: {ex}", None)
        if len(res.samples) < 1 and j > 3 and len(text) < 500:
            res.sample({"text": text, "__position__ of root": dict(roots[0]["__position__"]) if roots else None})
    # ---- error locations
    nf = ctx.n(3000, 40000)
    for j in range(nf):
        s = render.surfaces(r, 1)[0] if j % 2 else render.CANONICAL
        run_ = valcheck.make(r, eng, ctx.gated, nfaults=r.choice([1, 1, 2]), surface=s,
                             symbol_files="symbolset-root-bookkeeping" not in ctx.gated)
        if not run_.faults or run_.error is not None:
            res.count("fault_case_unusable")
            continue
        case = {"part": "error-locations", "text": run_.text[:5000], "faults": [(f["kind"], f["object"].type, f["key"]) for f in run_.faults]}
        if j % 3 == 0 and s is not render.CANONICAL:
            # the same document loaded with comments kept as well (what `mappyfile format --comments` does)
            try:
                run_.d = eng.loads(run_.text, include_position=True, include_comments=True)
                run_.root = run_.d[0] if isinstance(run_.d, list) else run_.d
                case["include_comments"] = True
            except Exception:
                pass
        try:
            msgs = valcheck.validate(eng, run_, public=(j % 50 == 0))
        except Exception as ex:
            res.count("validate_raised(C07 decides)")
            continue
        res.count("fault_locations_checked")
        res.seen("documents", h(run_.text))
        want = set()
        for f in run_.faults:
            want.add(f["item"].kw.pos if f["level"] == "keyword" else f["object"].kw.pos)
            res.seen("fault-kinds", f["kind"])
        if None in want:
            res.count("fault_item_not_rendered(gated)")
            continue
        got = {(m.get("line"), m.get("column")) for m in msgs}
        if got != want:
            res.violation("error-location-wrong", case, {"reported": sorted(got, key=str), "messages": [m["message"] for m in msgs][:4]},
                          {"expected": sorted(want, key=str)})
    # ---- corpus, renderer-free
    for path, text in corpus.texts(ctx):
        try:
            d = eng.loads(text, include_position=True)
        except Exception:
            continue
        corpus_contract(res, {"part": "corpus", "file": corpus.rel(path)}, text, d)


def replay(ctx, v):
    print("C08 replay: positions are judged against the renderer's token map, which exists only while rendering; "
          "the recorded text/surface is in the replay file; re-running the tier with the same VERIF_SEED reproduces the case.")
    run(ctx)
