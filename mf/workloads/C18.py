"""C18 - update / find helpers obey their documented laws.

Deciding monitor: icontract snapshot + ensure contracts attached to the real mappyfile.dictutils functions
(both the dictutils binding and the package re-export), comparing each call with mf/dictmodel.py.
"""
from __future__ import annotations

import copy
import glob
import hashlib
import json
import os

from .. import core, dictmodel
from ..mon import contracts

RULE = ("random nested dict/list targets (plain dict, Mapfile dict with and without factory, parsed corpus documents) with "
        "patches derived from the target (replacements, recursive merges, index-wise list merges with None "
        "placeholders, deletions, new keys, both overwrite modes) and random object lists with 0..all items lacking "
        "the searched key; every call of update/find/findall/findunique/findkey is compared with the reference "
        "implementation by an icontract postcondition; distinct = distinct (function, argument fingerprint)")
EVAL_KEY = "contract_evals"
DISTINCT_KEY = "cases"
NSHARDS = {"quick": 8, "thorough": 16}
FLOORS = {"quick": {"contract_evals": 4000, "judged:update": 800, "judged:find": 500, "judged:findall": 500,
                    "judged:findunique": 300, "judged:findkey": 300, "items_lacking_key_cases": 300, "history_checks": 300},
          "thorough": {"contract_evals": 300000, "judged:update": 60000, "judged:find": 30000,
                       "judged:findall": 30000, "judged:findunique": 20000, "judged:findkey": 20000,
                       "items_lacking_key_cases": 20000, "history_checks": 20000}}
ASSUMPTIONS = ["mf/dictmodel.py restates the documented laws", "deep copies of the arguments are faithful (C17 decides deepcopy)"]
DOMAIN = ["update: deleting an absent key, empty lists in the patch, None/delete placeholders beyond the end of the original "
          "list, dict patches over non-dict values and falsy __delete__ markers are observed but not judged",
          "findunique: values of one case are mutually orderable and hashable",
          "findkey: existing paths only"]

VIOL = []
STATE = {"judge": True}


class ContractBroken(Exception):
    pass


def _h(*a):
    return hashlib.sha1(json.dumps([core.canon(x) for x in a]).encode()).hexdigest()[:12]


# ------------------------------------------------------------------------------------------------
# contracts (named functions, argument names match the real signatures)


def snap_update(d1, d2, overwrite):
    return (copy.deepcopy(d1), copy.deepcopy(d2), overwrite)


def post_update(d1, d2, overwrite, result, OLD):
    contracts.bump("update")
    pre1, pre2, ow = OLD.pre
    reason = dictmodel.update_domain(pre1, pre2)
    if reason:
        contracts.bump("update-observed-not-judged")
        contracts.bump("ooD:" + reason)
        return True
    contracts.bump("judged:update")
    case = {"fn": "update", "d1": core.canon(pre1), "d2": core.canon(pre2), "overwrite": ow}
    exp_target = copy.deepcopy(pre1)
    exp = dictmodel.update(exp_target, copy.deepcopy(pre2), ow)
    if dictmodel.wants_delete(pre2):
        if result != {} or core.plain(d1) != core.plain(pre1):
            VIOL.append(("update-root-delete", case, [core.canon(result), core.canon(d1)], [{}, core.canon(pre1)]))
        return True
    if result is not d1:
        VIOL.append(("update-does-not-return-d1", case, core.canon(result), "d1 itself"))
    d = core.first_diff(core.plain(result), core.plain(exp))
    if d:
        VIOL.append(("update-differs-from-model", case, core.canon(result), core.canon(exp), d))
    return True


def snap_list(lst):
    return (copy.deepcopy(lst), [core.fp(i) for i in lst])


def _idx(lst, items):
    out = []
    for it in items:
        for i, x in enumerate(lst):
            if x is it:
                out.append(i)
                break
        else:
            out.append(-1)
    return out


def _purity(fn, case, lst, OLD):
    fps = [core.fp(i) for i in lst]
    if fps != OLD.pre[1]:
        changed = [i for i, (a, b) in enumerate(zip(fps, OLD.pre[1])) if a != b]
        VIOL.append((fn + "-mutates-items", case, [core.canon(lst[i]) for i in changed[:3]],
                     [core.canon(OLD.pre[0][i]) for i in changed[:3]]))


def post_find(lst, key, value, result, OLD):
    contracts.bump("find")
    contracts.bump("judged:find")
    pre = OLD.pre[0]
    case = {"fn": "find", "lst": core.canon(pre), "key": key, "value": core.canon(value)}
    exp = dictmodel.find(pre, key, value)
    got = None if result is None else _idx(lst, [result])[0]
    want = None if exp is None else _idx(pre, [exp])[0]
    if got != want:
        VIOL.append(("find-differs-from-model", case, got, want))
    _purity("find", case, lst, OLD)
    return True


def post_findall(lst, key, value, result, OLD):
    contracts.bump("findall")
    contracts.bump("judged:findall")
    pre = OLD.pre[0]
    case = {"fn": "findall", "lst": core.canon(pre), "key": key, "value": core.canon(value)}
    exp = _idx(pre, dictmodel.findall(pre, key, value))
    got = _idx(lst, result) if isinstance(result, list) else repr(result)
    if got != exp:
        VIOL.append(("findall-differs-from-model", case, got, exp))
    _purity("findall", case, lst, OLD)
    return True


def post_findunique(lst, key, result, OLD):
    contracts.bump("findunique")
    contracts.bump("judged:findunique")
    pre = OLD.pre[0]
    case = {"fn": "findunique", "lst": core.canon(pre), "key": key}
    exp = dictmodel.findunique(pre, key)
    if core.canon(result) != core.canon(exp):
        VIOL.append(("findunique-differs-from-model", case, core.canon(result), core.canon(exp)))
    _purity("findunique", case, lst, OLD)
    return True


_ATTACHED = {}


def attach():
    """Decorate the real functions with icontract contracts and rebind every mappyfile binding."""
    if _ATTACHED:
        return _ATTACHED
    import icontract
    import mappyfile
    from mappyfile import dictutils

    def deco(fn, snap, post):
        f = icontract.ensure(post, error=ContractBroken)(fn)
        f = icontract.snapshot(snap, name="pre")(f)
        return f

    table = {"update": (snap_update, post_update), "find": (snap_list, post_find),
             "findall": (snap_list, post_findall), "findunique": (snap_list, post_findunique)}
    for name, (snap, post) in table.items():
        orig = getattr(dictutils, name)
        new = deco(orig, snap, post)
        n = contracts.rebind(orig, new)
        _ATTACHED[name] = (new, n)
    return _ATTACHED


# ------------------------------------------------------------------------------------------------
# generators

KEYS = ["name", "type", "group", "status", "data", "extra", "opacity", "k1", "k2"]
CHILD = ["metadata", "web", "legend", "sub"]
LISTS = ["layers", "classes", "styles", "items"]
SCALARS = [0, 1, 2, 7, -1, 1.5, "", "a", "road", "roads", "oad", "x y", True, False, "ON", "on"]


def mk_dict(r, kind):
    from mappyfile.ordereddict import CaseInsensitiveOrderedDict as CI

    if kind == "plain":
        return {}
    if kind == "ci":
        return CI(CI)
    return CI()


def case_key(r, k, kind):
    if kind == "plain":
        return k
    return r.choice([k, k.upper(), k.title()])


def gen_target(r, kind, depth=0):
    d = mk_dict(r, kind)
    for k in r.sample(KEYS, r.randint(0, 5)):
        d[k] = r.choice(SCALARS) if r.random() < 0.8 else [r.choice(SCALARS) for _ in range(r.randint(1, 3))]
        if r.random() < 0.1:
            # a key that EXISTS with the value None (hand-built / JSON-loaded dictionaries): "exists" is `k in d1`, not `d1.get(k)`
            d[k] = None
    if r.random() < 0.2:
        # bookkeeping entries as loads(include_position / include_comments) leaves them: keys like any other for update
        d["__position__"] = {"line": r.randint(1, 99), "column": r.randint(1, 40), "name": {"line": r.randint(1, 99), "column": 3}}
        if r.random() < 0.5:
            d["__comments__"] = {"name": ["# a comment"]}
    if depth < 3:
        for k in r.sample(CHILD, r.randint(0, 2)):
            d[k] = gen_target(r, kind, depth + 1)
        for k in r.sample(LISTS, r.randint(0, 2)):
            d[k] = [gen_target(r, kind, depth + 1) for _ in range(r.randint(0, 3))]
    return d


def gen_patch(r, t, kind, depth=0, ood=0.0):
    """A patch derived from target t so that merges, deletions and index-wise zips hit existing structure."""
    p = {}
    for k, v in list(t.items()):
        x = r.random()
        if x < 0.45 and not (k == "__position__" and x < 0.15):
            continue
        pk = case_key(r, k, kind)
        if isinstance(v, dict):
            p[pk] = delete_flag(r) if r.random() < 0.2 else gen_patch(r, v, kind, depth + 1, ood)
        elif isinstance(v, list) and v and all(isinstance(i, dict) for i in v):
            lst = []
            for item in v:
                y = r.random()
                lst.append(None if y < 0.3 else delete_flag(r) if y < 0.45 else gen_patch(r, item, kind, depth + 1, ood))
            for _ in range(r.randint(0, 2)):
                lst.append(gen_patch(r, {}, kind, depth + 1, ood))
            if r.random() < 0.15:
                lst = lst[: r.randint(1, len(lst))]
            if r.random() < 0.5:
                lst = tuple(lst) if r.random() < 0.2 else lst
            p[pk] = lst
        elif isinstance(v, list) and not v:
            p[pk] = [gen_patch(r, {}, kind, depth + 1, ood) for _ in range(r.randint(1, 2))]
        elif isinstance(v, list):
            p[pk] = "__delete__" if r.random() < 0.2 else [r.choice(SCALARS) for _ in range(r.randint(1, 3))]
        else:
            p[pk] = "__delete__" if r.random() < 0.25 else r.choice(SCALARS)
    # new keys
    for _ in range(r.randint(0, 2)):
        k = r.choice(KEYS + ["new1", "new2"])
        if k in t:
            continue
        p[case_key(r, k, kind)] = r.choice(SCALARS)
    if depth < 3 and r.random() < 0.3:
        k = r.choice(CHILD + ["newchild"])
        if k not in t:
            p[case_key(r, k, kind)] = gen_patch(r, {}, kind, depth + 1, ood)
    if depth < 3 and r.random() < 0.2:
        k = r.choice(LISTS)
        if k not in t:
            p[case_key(r, k, kind)] = [gen_patch(r, {}, kind, depth + 1, ood) for _ in range(r.randint(1, 2))]
    if "__position__" not in t and r.random() < 0.06:
        p["__position__"] = r.choice([{"line": 7, "column": 2, "status": {"line": 8, "column": 3}}, 5, [1, 2], "text"])
    if ood and r.random() < ood:
        p[r.choice(["absent1", "absent2"])] = r.choice(["__delete__", {"__delete__": True}])
    return p


def struct_sig(d2, depth=0):
    """Structural features of a patch, for the evidence."""
    f = set()
    for v in d2.values():
        if isinstance(v, dict):
            f.add("delete-dict" if dictmodel.wants_delete(v) else f"merge@{depth}")
            if not dictmodel.wants_delete(v):
                f |= struct_sig(v, depth + 1)
        elif dictmodel.is_objlist(v):
            f.add("listzip")
            if any(i is None for i in v):
                f.add("listzip-none")
            if any(dictmodel.wants_delete(i) for i in v if i):
                f.add("listzip-delete")
            for i in v:
                if i and not dictmodel.wants_delete(i):
                    f |= struct_sig(i, depth + 1)
        elif v == "__delete__":
            f.add("delete-scalar")
        else:
            f.add("replace")
    return f


POOLS = [["road", "roads", "oad", "", "x"], [0, 1, 2, 10, -1], [0.5, 1, 2.5, 0], [True, False, 1, 0], ["a", "b", "A"],
         # searched values that a missing key must not be confused with: None (what .get returns), "" and the empty containers
         [None, "road", "", "roads"], [None, None, "x"]]


def fresh_strings(x):
    """Replace every string VALUE by an equal string that is a different object (what a patch read from JSON / YAML / Mapfile text
    holds: equal to a literal of the program, never identical to it)."""
    if isinstance(x, dict):
        for k in list(x.keys()):
            v = x[k]
            if isinstance(v, str) and len(v) > 1:
                x[k] = "".join(list(v))
            else:
                fresh_strings(v)
    elif isinstance(x, list):
        for i, v in enumerate(x):
            if isinstance(v, str) and len(v) > 1:
                x[i] = "".join(list(v))
            else:
                fresh_strings(v)
    return x


def delete_flag(r):
    """The dict form of the delete marker: usually {"__delete__": True}; any truthy flag counts."""
    return {"__delete__": True if r.random() < 0.75 else r.choice([1, "yes", 1.0, "true", 7])}


def gen_objlist(r, containers=False):
    kind = r.choice(["plain", "ci", "ci", "ci-nofactory"])
    pool = r.choice(POOLS)
    key = r.choice(["group", "name", "status", "name", "stra\u00dfe", "\u03bf\u03b4\u03cc\u03c2", "gr\u00f6\u00dfe", "\u017f"])
    n = r.randint(0, 7)
    lacking = r.choice([0, 0, 1, 2, n])
    lst = []
    for i in range(n):
        d = mk_dict(r, kind)
        d["__type__"] = "layer"
        if r.random() < 0.5:
            d["other"] = r.choice(SCALARS)
        if not (i < lacking):
            d[key] = r.choice(pool)
            if containers and r.random() < 0.2:
                # the key is there but holds a list / dict (COLOR 0 0 255 next to COLOR "#ff0000"): never equal to a scalar, never an error
                d[key] = r.choice([[0, 0, 255], ["road"], {"__type__": "x"}, [], {}])
        if r.random() < 0.3:
            d["classes"] = [mk_dict(r, kind)]
        lst.append(d)
    r.shuffle(lst)
    return kind, key, pool, lst, min(lacking, n)


def gen_path(r, d):
    """A random existing key/index path into d."""
    path = []
    cur = d
    for _ in range(r.randint(0, 5)):
        if isinstance(cur, dict) and cur:
            k = r.choice(list(cur.keys()))
            path.append(k)
            cur = cur[k]
        elif isinstance(cur, list) and cur:
            i = r.randrange(len(cur))
            path.append(i)
            cur = cur[i]
        else:
            break
    return path


def corpus_targets(r, n):
    import mappyfile
    from mappyfile.parser import Parser
    from mappyfile.transformer import MapfileToDict

    files = sorted(glob.glob(os.path.join(core.REPO, "tests", "sample_maps", "*.map")))
    p = Parser(expand_includes=False)
    m = MapfileToDict()
    out = []
    for f in r.sample(files, min(len(files), n * 2)):
        try:
            d = m.transform(p.parse(open(f, encoding="utf-8").read()))
        except Exception:
            continue
        if isinstance(d, dict):
            out.append(d)
        if len(out) >= n:
            break
    return out


def flush(res, case_extra=None):
    for v in VIOL:
        kind, case, obs, exp = v[0], v[1], v[2], v[3]
        res.violation(kind, case, obs, exp, diff=(v[4] if len(v) > 4 else None))
    VIOL.clear()


def call(res, fn, name, args, in_domain=True):
    """Invoke the (contracted) real function; a raise inside the documented domain is itself a violation."""
    try:
        return True, fn(*args)
    except ContractBroken:
        raise
    except Exception as ex:
        if in_domain:
            res.violation(name + "-raises", {"fn": name, "args": [core.canon(a) for a in args]},
                          f"{type(ex).__name__}: {ex}", "a result (inside the documented domain)")
        else:
            res.count("raised-outside-domain:" + name)
        return False, None


def run(ctx):
    import mappyfile

    att = attach()
    res = ctx.res
    for name, (_, n) in att.items():
        res.count("bindings_rebound:" + name, n)
        if getattr(mappyfile, name) is not att[name][0]:
            res.inconclusive_because(f"mappyfile.{name} is not the contracted function")
    r = ctx.rng("c18")
    n = ctx.n(6000, 520000)
    targets = corpus_targets(r, 6 if ctx.quick else 40)
    for i in range(n):
        which = i % 5
        if which == 0 or which == 4:
            kind = r.choice(["plain", "ci", "ci"])
            use_corpus = targets and r.random() < 0.08
            t = copy.deepcopy(r.choice(targets)) if use_corpus else gen_target(r, kind)
            if use_corpus:
                kind = "ci"
            ood = 0.15 if r.random() < 0.1 else 0.0
            p = gen_patch(r, t, kind, 0, ood)
            if r.random() < 0.01:
                p = delete_flag(r)
            if i % 2:
                fresh_strings(p)
                res.count("patches_with_non_literal_strings")
            ow = r.random() < 0.6
            fn = mappyfile.update if r.random() < 0.5 else mappyfile.dictutils.update
            in_dom = dictmodel.update_domain(t, p) is None
            sig = "update " + ("corpus" if use_corpus else kind) + " ow=%s " % ow + ",".join(sorted(struct_sig(p)))
            res.seen("structural-case", sig)
            res.seen("cases", _h("update", t, p, ow))
            if len(res.samples) < 2 and in_dom and len(p) > 1 and not use_corpus:
                res.sample({"fn": "update", "d1": json.loads(json.dumps(t)), "d2": json.loads(json.dumps(p)), "overwrite": ow})
            call(res, fn, "update", (t, p, ow), in_dom)
        elif which == 1:
            kind, key, pool, lst, lacking = gen_objlist(r, containers=True)
            value = r.choice(pool + SCALARS[:4])
            res.seen("cases", _h("find", lst, key, value))
            res.seen("structural-case", f"find {kind} lacking={min(lacking, 3)} valuetype={type(value).__name__}")
            if lacking:
                res.count("items_lacking_key_cases")
            fn = mappyfile.find if r.random() < 0.5 else mappyfile.dictutils.find
            if len(res.samples) < 4 and lacking and kind == "ci":
                res.sample({"fn": "find", "lst": json.loads(json.dumps(lst)), "key": key, "value": value})
            call(res, fn, "find", (lst, r.choice([key, key.upper()]), value))
        elif which == 2:
            kind, key, pool, lst, lacking = gen_objlist(r, containers=True)
            if r.random() < 0.4:
                value = r.sample(pool, r.randint(1, min(3, len(pool))))
                if r.random() < 0.3:
                    value = tuple(value)
            else:
                value = r.choice(pool)
            res.seen("cases", _h("findall", lst, key, value))
            res.seen("structural-case", f"findall {kind} lacking={min(lacking, 3)} valuetype={type(value).__name__}")
            if lacking:
                res.count("items_lacking_key_cases")
            fn = mappyfile.findall if r.random() < 0.5 else mappyfile.dictutils.findall
            call(res, fn, "findall", (lst, r.choice([key, key.upper()]), value))
        else:
            kind, key, pool, lst, lacking = gen_objlist(r)
            if pool is POOLS[3]:
                pool = POOLS[1]
            res.seen("cases", _h("findunique", lst, key))
            res.seen("structural-case", f"findunique {kind} lacking={min(lacking, 3)}")
            if lacking:
                res.count("items_lacking_key_cases")
            call(res, mappyfile.findunique, "findunique", (lst, r.choice([key, key.upper()])))
            # findkey: element at an existing path (identity with a manual walk)
            kind2 = r.choice(["plain", "ci"])
            t = gen_target(r, kind2)
            path = gen_path(r, t)
            before = core.fp(t)
            ok, got = call(res, mappyfile.findkey, "findkey", (t, *path))
            contracts.bump("judged:findkey")
            contracts.bump("findkey")
            res.seen("cases", _h("findkey", t, path))
            res.seen("structural-case", f"findkey {kind2} len={len(path)}")
            if ok:
                want = dictmodel.findkey(t, *path)
                if got is not want:
                    res.violation("findkey-differs-from-model", {"fn": "findkey", "d": core.canon(t), "path": path},
                                  core.canon(got), core.canon(want))
                if core.fp(t) != before:
                    res.violation("findkey-mutates", {"fn": "findkey", "d": core.canon(t), "path": path}, None, None)
        if i % 4 == 0:
            # history: one patch applied to two dictionaries, then only the first is updated again - the second dictionary and
            # the patch must not change (no mutable state may be shared through update)
            kind = r.choice(["plain", "ci"])
            t1 = gen_target(r, kind)
            t2 = copy.deepcopy(t1) if r.random() < 0.5 else gen_target(r, kind)
            p1 = gen_patch(r, t1, kind)
            if dictmodel.update_domain(t1, p1) is None and dictmodel.update_domain(t2, p1) is None:
                ok1, _ = call(res, mappyfile.update, "update", (t1, p1, True))
                ok2, _ = call(res, mappyfile.update, "update", (t2, p1, True))
                if ok1 and ok2:
                    fp2, fpp = core.fp(t2), core.fp(p1)
                    q = gen_patch(r, t1, kind)
                    if dictmodel.update_domain(t1, q) is None:
                        call(res, mappyfile.update, "update", (t1, q, True))
                        res.count("history_checks")
                        res.seen("cases", _h("history", t1, p1, q))
                        if core.fp(t2) != fp2:
                            res.violation("update-of-one-dictionary-changes-another", {"fn": "update-history", "t2": core.canon(t2), "p1": core.canon(p1),
                                                                                       "q": core.canon(q)}, "t2 changed", "t2 untouched")
                        if core.fp(p1) != fpp:
                            res.violation("update-changes-an-earlier-patch", {"fn": "update-history", "p1": core.canon(p1), "q": core.canon(q)},
                                          "p1 changed", "p1 untouched")
        flush(res)
    total = 0
    for k, v in contracts.EVALS.items():
        res.count(k, v)
        if k in ("update", "find", "findall", "findunique", "findkey"):
            total += v
    res.count("contract_evals", total)


def _decanon(c):
    """Inverse of core.canon for the JSON forms this workload produces."""
    from mappyfile.ordereddict import CaseInsensitiveOrderedDict as CI

    t = c[0]
    if t == "N":
        return None
    if t in ("b", "i", "s"):
        return c[1]
    if t == "f":
        return float(c[1])
    if t == "L":
        return [_decanon(x) for x in c[1]]
    if t == "T":
        return tuple(_decanon(x) for x in c[1])
    if t.startswith("D:"):
        if t == "D:dict":
            d = {}
        else:
            d = CI(CI) if c[1] and c[1][0] else CI()
        for k, v in c[2]:
            d[_decanon(k)] = _decanon(v)
        return d
    raise ValueError(c)


def replay(ctx, v):
    import mappyfile

    attach()
    case = v["case"]
    fn = case["fn"]
    if "args" in case:
        args = [_decanon(a) for a in case["args"]]
    elif fn == "update":
        args = [_decanon(case["d1"]), _decanon(case["d2"]), case["overwrite"]]
    elif fn == "findunique":
        args = [_decanon(case["lst"]), case["key"]]
    elif fn == "findkey":
        args = [_decanon(case["d"])] + list(case["path"])
    else:
        args = [_decanon(case["lst"]), case["key"], _decanon(case["value"])]
    call(ctx.res, getattr(mappyfile, fn), fn, args)
    flush(ctx.res)
