"""C13 - position and comment bookkeeping is transparent.

Deciding monitor: relation over four recorded parse events (include_position x include_comments) and their print
events; "apart from comment text" is decided with the independent scanner (comment tokens removed, remaining token
stream compared).
"""
from __future__ import annotations

import hashlib
import io
import os
import tempfile

from .. import core, corpus, gen, reader, relations, render
from ..engine import Engine

RULE = ("every corpus file and generated document (random surface renderings with random comments) is loaded under the four "
        "combinations of include_position x include_comments through loads / open / load; after removing exactly __position__ and "
        "__comments__ each result must equal the plain load; each is printed and, comment tokens aside, must print the token stream "
        "the plain dictionary prints; distinct = distinct (source text, flag combination)")
EVAL_KEY = "flag_combinations_judged"
DISTINCT_KEY = "cases"
NSHARDS = {"quick": 8, "thorough": 16}
FLOORS = {"quick": {"flag_combinations_judged": 2500, "print_comparisons": 2500, "comment_nodes_seen": 1000},
          "thorough": {"flag_combinations_judged": 45000, "print_comparisons": 35000, "comment_nodes_seen": 35000}}
ASSUMPTIONS = ["mf/reader.py identifies comment tokens (cross-checked against the lexer's own capture on the corpus: 9,798 comments agree)"]
DOMAIN = gen.DOMAIN + ["documents whose strings contain the default quote character or a backslash are not printed (documented limitation)"]


PRINT_OPTS = [dict(), dict(align_values=True), dict(indent=2, align_values=True, quote="'"), dict(end_comment=True, newlinechar="\r\n"),
              dict(indent=0), dict(spacer="\t", indent=1, align_values=True), dict(separate_complex_types=True)]


def h(s):
    return hashlib.sha1(s.encode()).hexdigest()[:12]


def hidden_keys(d, out):
    if isinstance(d, dict):
        for k, v in d.items():
            if isinstance(k, str) and k.startswith("__") and k.endswith("__"):
                out.add(k)
            if k not in ("__position__", "__comments__"):
                hidden_keys(v, out)
    elif isinstance(d, (list, tuple)):
        for v in d:
            hidden_keys(v, out)


def comment_nodes(d, acc):
    if isinstance(d, dict):
        c = d.get("__comments__")
        if c:
            t = d.get("__type__")
            for k, v in (c.items() if isinstance(c, dict) else []):
                if v:
                    acc.add(("composite" if k == "__type__" else "string_pair" if t in ("metadata", "validation", "values", "connectionoptions")
                             else "projection" if k == "projection" else "attr"))
        for k, v in d.items():
            if k != "__comments__":
                comment_nodes(v, acc)
    elif isinstance(d, list):
        for v in d:
            comment_nodes(v, acc)


def non_comment_tokens(text):
    return [(t.kind, t.text) for t in reader.scan(text, keep_comments=False)]


class Front:
    """loads / open / load in rotation."""

    def __init__(self):
        import mappyfile
        self.mf = mappyfile
        self.tmp = tempfile.mkdtemp(prefix="mf-c13-")
        self.n = 0

    def close(self):
        import shutil
        shutil.rmtree(self.tmp, ignore_errors=True)

    def load(self, eng, text, p, c):
        self.n += 1
        via = self.n % 12
        if via == 0:
            fn = os.path.join(self.tmp, "in.map")
            with open(fn, "w", encoding="utf-8", newline="") as f:
                f.write(text)
            return "open", self.mf.open(fn, expand_includes=False, include_position=p, include_comments=c)
        if via == 6:
            return "load", self.mf.load(io.StringIO(text), expand_includes=False, include_position=p, include_comments=c)
        return "loads", eng.loads(text, include_position=p, include_comments=c)


class StringFront(Front):
    """loads / load(StringIO) only: for texts whose strings hold carriage returns (a file read would translate them - C20's listed finding)."""

    def load(self, eng, text, p, c):
        self.n += 1
        if self.n % 4 == 0:
            return "load", self.mf.load(io.StringIO(text, newline=""), include_position=p, include_comments=c)
        if self.n % 4 == 2:
            return "loads-public", self.mf.loads(text, include_position=p, include_comments=c)
        return "loads", eng.loads(text, include_position=p, include_comments=c)


class TreeFront:
    """A document spread over INCLUDE files (written below self.dir); open / load / loads with the includes expanded."""

    def __init__(self, mf, files, root_rel):
        self.mf = mf
        self.dir = tempfile.mkdtemp(prefix="mf-c13t-")
        self.files = files
        self.root = os.path.join(self.dir, root_rel)
        for rel, content in files.items():
            fn = os.path.join(self.dir, rel)
            os.makedirs(os.path.dirname(fn), exist_ok=True)
            with open(fn, "w", encoding="utf-8", newline="") as f:
                f.write(content)
        self.n = 0

    def close(self):
        import shutil
        shutil.rmtree(self.dir, ignore_errors=True)

    def load(self, eng, text, p, c):
        self.n += 1
        via = self.n % 3
        if via == 1:
            return "open+includes", self.mf.open(self.root, include_position=p, include_comments=c)
        if via == 2:
            with open(self.root, encoding="utf-8") as f:
                return "load+includes", self.mf.load(f, include_position=p, include_comments=c)
        old = os.getcwd()
        os.chdir(os.path.dirname(self.root))
        try:
            return "loads+includes", self.mf.loads(self.files[os.path.relpath(self.root, self.dir)], include_position=p, include_comments=c)
        finally:
            os.chdir(old)


def judge(ctx, eng, front, text, label, ident, tree=None):
    res = ctx.res
    try:
        plain_d = eng.loads(text) if tree is None else tree.mf.open(tree.root)
    except Exception:
        res.count("not_accepted:" + label)
        return
    if tree is not None:
        front = tree
    pref = core.plain(plain_d)
    popts = PRINT_OPTS[sum(map(ord, ident)) % len(PRINT_OPTS)]
    printable = not (relations.contains_quote(plain_d, popts.get("quote", '"')) or relations.has_backslash(plain_d))
    ref_out = None
    if printable:
        try:
            ref_out = eng.dumps(plain_d, **popts)
            ref_tokens = non_comment_tokens(ref_out)
        except Exception as ex:
            res.count("plain-print-failed:" + type(ex).__name__)
            printable = False
    for p, c in ((False, False), (True, False), (False, True), (True, True)):
        case = {"workload": label, "doc": ident, "include_position": p, "include_comments": c,
                "text": text if len(text) < 20000 else None}
        if tree is not None:
            case["files"] = tree.files
            case["root"] = os.path.relpath(tree.root, tree.dir)
        try:
            via, d = front.load(eng, text, p, c)
        except Exception as ex:
            res.violation("bookkeeping-load-raises", case, f"{type(ex).__name__}: {str(ex)[:300]}", "same as plain load")
            continue
        res.count("flag_combinations_judged")
        res.count("via:" + via)
        res.seen("cases", h(text + f"{p}{c}"))
        hk = set()
        hidden_keys(d, hk)
        allowed = {"__type__"} | ({"__position__"} if p else set()) | ({"__comments__"} if c else set())
        if hk - allowed:
            res.violation("unexpected-hidden-keys", case, sorted(hk - allowed), sorted(allowed))
        if p and "__position__" not in hk or (c and "__comments__" not in hk):
            res.violation("bookkeeping-keys-missing", case, sorted(hk), sorted(allowed))
        sp = core.plain(d, strip_hidden=True)
        if sp != pref:
            res.violation("bookkeeping-changes-content", case, core.first_diff(pref, sp), None)
            continue
        if c:
            acc = set()
            comment_nodes(d, acc)
            for a in acc:
                res.seen("comment-node-kinds", a)
                res.count("comment_nodes_seen")
        if not printable:
            res.count("print_skipped:quote-or-backslash")
            continue
        res.count("print_comparisons")
        try:
            out = eng.dumps(d, **popts)
        except Exception as ex:
            res.violation("bookkept-dictionary-does-not-print", case, f"{type(ex).__name__}: {str(ex)[:300]}", None)
            continue
        case["print_options"] = popts
        if not c:
            if out != ref_out:
                res.violation("position-data-changes-output", dict(case, out=out[:2000]), None, None)
            continue
        # with comments kept: comment text aside, the layout of the remaining tokens is the same too (line by line)
        if p and "\r" not in text and tree is None:  # (open() translates CR inside comment text: known finding cr-in-string-value)
            try:
                oc = eng.dumps(eng.loads(text, include_comments=True), **popts)
                if oc != out:
                    res.violation("position-data-changes-output", dict(case, out=out[:2000], without_position=oc[:2000]), None, None)
            except Exception:
                pass
        try:
            toks = non_comment_tokens(out)
        except reader.ScanError as ex:
            res.violation("commented-output-not-scannable", dict(case, out=out[:3000]), str(ex), None)
            continue
        if toks != ref_tokens:
            i = next((i for i, (a, b) in enumerate(zip(toks, ref_tokens)) if a != b), min(len(toks), len(ref_tokens)))
            res.violation("output-differs-beyond-comment-text", dict(case, out=out[:3000]),
                          {"at_token": i, "with_comments": toks[i:i + 4], "plain": ref_tokens[i:i + 4]}, None)
        if "__position__" in out or "__comments__" in out and "__comments__" not in text:
            res.violation("hidden-key-printed", dict(case, out=out[:2000]), None, None)


def run(ctx):
    eng = Engine(public_every=80)
    front = Front()
    sfront = StringFront()
    res = ctx.res
    r = ctx.rng("c13")
    try:
        for path, text in corpus.texts(ctx):
            judge(ctx, eng, front, text, "corpus", corpus.rel(path))
        for j in range(ctx.n(350, 15000)):
            nodes = gen.gen_document(r, gen.GenOpts(gated=ctx.gated, p_key=r.choice([0.2, 0.4]), dup=0.02, dup_blocks=0.25 if r.random() < 0.3 else 0.0))
            s = render.surfaces(r, 1)[0]
            s.gap_comments = r.choice([0.1, 0.3, 0.5])
            if r.random() < 0.4:
                s = render.Surface(layout="lines", placed_comments=True, eol=r.choice(["\n", "\r\n"]))
                gen.place_comments(nodes, r)
            text = render.render(nodes, s, r).text
            judge(ctx, eng, front, text, "gen", h(text))
            if j % 3 == 0 and "\r" not in text:
                # the same document as a Windows editor saves it: CRLF everywhere, also inside strings that run over several lines
                crlf = text.replace("\n", "\r\n")
                res.count("crlf_documents")
                if any("\n" in t.text for t in reader.scan(text, keep_comments=False) if t.kind in ("dq", "sq")):
                    res.count("crlf_documents_with_multi_line_strings")
                judge(ctx, eng, sfront, crlf, "gen-crlf", h(crlf))
            if len(res.samples) < 2 and 100 < len(text) < 600 and "#" in text:
                res.sample({"source": text, "printed_with_comments": eng.dumps(eng.loads(text, include_comments=True))})
        # every way the grammar lets a string be written, as key and as value of the key-value blocks (plain, single, back-quoted,
        # with the i flag, unquoted), nested and at the root, with and without comments around
        forms = [('"%s"', "dq"), ("'%s'", "sq"), ("`%s`", "bq"), ('"%s"i', "dqi"), ("'%s'i", "sqi"), ("%s", "bare")]
        hosts = [("LAYER\n  NAME \"l\"\n  %s\n%s  END\nEND\n", "METADATA"), ("LAYER\n  %s\n%s  END\nEND\n", "VALIDATION"),
                 ("LAYER\n  %s\n%s  END\nEND\n", "CONNECTIONOPTIONS"), ("SCALETOKEN\n  NAME \"%%x%%\"\n  %s\n%s  END\nEND\n", "VALUES"),
                 ("%s\n%s  END\n", "METADATA"), ("MAP\n  WEB\n  %s\n%s  END\n  END\nEND\n", "METADATA")]
        k = 0
        for fk, nk in forms:
            for fv, nv in forms:
                for hi, (host, kw) in enumerate(hosts):
                    k += 1
                    if not ctx.mine(k):
                        continue
                    key = fk % ("Wms_Title" if nk == "bare" else "wms title" if nk != "bare" and (k % 2) else "Wms_Title")
                    val = fv % ("value_1" if nv == "bare" else "some value")
                    body = f"    {key} {val}" + (" # trailing" if k % 3 == 0 else "") + "\n    \"other\" \"x\"\n"
                    if k % 4 == 0:
                        body = "    # above the pair\n" + body
                    text = host % (kw, body)
                    res.count("string_form_documents")
                    res.seen("string-form-pairs", f"{nk}/{nv} in {kw}{' at the root' if hi == 4 else ''}")
                    judge(ctx, eng, sfront, text, "string-forms", h(text))
        # keywords the schemas do not know (the grammar takes any word as a keyword), among them the names the bookkeeping itself uses
        # inside __position__ / __comments__ (line, column, values): they are data like any other keyword
        if ctx.shard == 1 % ctx.nshards:
            odd_keys = ["LINE", "COLUMN", "line", "Column", "VALUES_X", "POSITION", "COMMENTS", "COMMENT", "TYPE_", "FOO", "END_"]
            for okey in odd_keys:
                for host in ("MAP", "CLASS", "LABEL"):
                    for val in ('5', '"text"'):
                        text = f'{host}\n  {okey} {val} # trailing\n  STATUS ON\n  {okey.lower()}2 7\nEND\n'
                        res.count("unknown_keyword_documents")
                        judge(ctx, eng, sfront, text, "unknown-keywords", h(text))
                        text = f'MAP\n  # above\n  {host if host != "MAP" else "LAYER"}\n    NAME "n"\n    {okey} {val}\n  END\nEND\n'
                        judge(ctx, eng, sfront, text, "unknown-keywords", h(text))
        # values that START like a delimited token (/regex/, \\regex\\, %var%, `string`) but are not closed on their line, with the same
        # delimiter again further down (in a comment, a string, an expression): every load mode has to lex them the same way
        if ctx.shard == 0:
            openers = ["/roads", "/data", "%var", "%x", "\\\\ab", "`abc", "/a b"]
            laters = ['# see a/b and 100% `x` \\\\y', 'NAME "x/y 50% `z` \\\\w"', 'FILTER ([a] / 2 > 1)', '/* a/b % ` */', 'DATA "p/q"\n  # %v% /r/']
            for op in openers:
                for lt in laters:
                    for tmpl in ("LAYER\n  TEMPLATE {op}\n  {lt}\n  STATUS ON\nEND\n", "MAP\n  SHAPEPATH {op}\n  LAYER\n    {lt}\n  END\nEND\n",
                                 "LAYER\n  PROCESSING {op} # c\n  {lt}\nEND\n"):
                        text = tmpl.format(op=op, lt=lt)
                        res.count("open_delimiter_documents")
                        judge(ctx, eng, sfront, text, "open-delimiter", h(text))
        # documents spread over INCLUDE files (comments on the INCLUDE lines and inside the included files, multi-line strings)
        from . import C15
        import mappyfile
        for j in range(ctx.n(40, 1500)):
            nodes = gen.gen_document(r, gen.GenOpts(gated=ctx.gated, p_key=r.choice([0.2, 0.4]), dup=0.0), root=r.choice(["map", "map", "layer"]))
            gen.place_comments(nodes, r)
            text = render.render(nodes[:1], render.Surface(layout="lines", placed_comments=True), r).text
            lines = C15.logical_lines(text)
            if lines is None or len(lines) < 4:
                continue
            tg = C15.TreeGen(r)
            root = C15.File("root.map", 0)
            tg.files.append(root)
            inner = C15.File("__inner__", 0)
            body = lines[1:-1]
            ml = [i for i, l in enumerate(body) if "\n" in l]
            if ml and j % 2 == 0:
                # an included file that begins with a statement whose string runs over several lines
                i = r.choice(ml)
                k = r.randint(i + 1, len(body))
                child = tg.newfile(1)
                child.entries = body[i:k]
                inner.entries = body[:i] + [C15.Inc(child, C15.rand_style(r))] + body[k:]
                res.count("include_trees_child_starts_inside_multi_line_string")
            else:
                tg.build(inner, body, r.choice([1, 1, 2, 3]), True)
            root.entries = [lines[0]] + inner.entries + [lines[-1]]
            files = {}
            for f in tg.files:
                if f is inner:
                    continue
                for e in f.entries:
                    if isinstance(e, C15.Inc):
                        e.style["abs"] = False
                        if r.random() < 0.6:
                            e.style["comment"] = r.choice([" # shared with the other service", "  # 'quoted' \"comment\"", " #c", " # INCLUDE \"x\""])
                files[f.rel] = f.eol.join(e.line("") if isinstance(e, C15.Inc) else e for e in f.entries) + (f.eol if f.trailing_newline else "")
            tree = TreeFront(mappyfile, files, "root.map")
            try:
                res.count("include_trees")
                if any("\n" in e for f in tg.files for e in f.entries if isinstance(e, str)):
                    res.count("include_trees_with_multi_line_strings")
                judge(ctx, eng, front, "\n".join(C15.flatten(root)), "include-tree", h(repr(sorted(files.items()))), tree=tree)
            finally:
                tree.close()
    finally:
        sfront.close()
        front.close()


def replay(ctx, v):
    eng = Engine(public_every=0)
    front = Front()
    try:
        case = v["case"]
        if case.get("files"):
            import mappyfile
            tree = TreeFront(mappyfile, case["files"], case["root"])
            try:
                for _ in range(3):  # the three front ends in rotation
                    judge(ctx, eng, front, case.get("text") or "", "replay", case["doc"], tree=tree)
            finally:
                tree.close()
            return
        text = case.get("text") or open(os.path.join(core.REPO, case["doc"]), encoding="utf-8").read()
        if "\r" in text:
            sf = StringFront()
            try:
                for _ in range(4):
                    judge(ctx, eng, sf, text, "replay", case["doc"])
            finally:
                sf.close()
            return
        judge(ctx, eng, front, text, "replay", case["doc"])
    finally:
        front.close()
