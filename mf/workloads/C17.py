"""C17 - Mapfile dicts behave as case-insensitive, insertion-ordered dicts.

Deciding monitor: reference-model shadow (mf/odmodel.py) stepped in lock-step with the real
CaseInsensitiveOrderedDict, plus an icontract class invariant on the real class.
Workload: exhaustive BFS over reachable abstract states of a small key/value alphabet (depth bound), then
seeded random walks; copy / deepcopy / pickle / construction probes at every new state.
"""
from __future__ import annotations

import copy
import json
import pickle
from collections import OrderedDict

from .. import core, vocab
from ..odmodel import ODModel

RULE = ("BFS over operation sequences on CaseInsensitiveOrderedDict (keys a/A/b/B/layers/LAYERS/Zz, values 1,'x',[1],{}; "
        "with and without default factory) deduplicated by abstract state (factory flag + ordered items); after every "
        "operation the real object's return value / exception class and items() are compared with the reference model; "
        "a case is distinct when its abstract state fingerprint is new; then random walks of length 200")
EVAL_KEY = "transitions"
DISTINCT_KEY = "states"
NSHARDS = {"quick": 8, "thorough": 16}
FLOORS = {"quick": {"transitions": 20000, "distinct:states": 1500, "invariant_evals": 20000, "copy_probes": 1000},
          "thorough": {"transitions": 400000, "distinct:states": 20000, "invariant_evals": 400000, "copy_probes": 10000}}
ASSUMPTIONS = ["the reference model (mf/odmodel.py, 70 lines) restates the property text",
               "without a default factory a missing key raises KeyError (dicts returned by loads always have a factory)",
               "only string keys are driven (the statement speaks of string keys)"]
DOMAIN = ["string keys only", "values: int, str, list, dict"]

KEYS = ["a", "A", "b", "B", "layers", "LAYERS", "Zz"]
VALS = [1, "x", [1], {}]

# keyword names that look like parameter names of dict-like classes ("e" and "self" ARE parameter names of update and are left out)
PARAM_LIKE = [{"values": {"a": 1}}, {"values": [["x", 1]], "b": 2}, {"values": None}, {"values": "s"},
              {"args": [1], "kwargs": {"k": 1}, "items": 1, "data": "x", "other": {}, "mapping": [1], "key": 1, "value": 2, "default": 3, "d": 4,
               "f": 5, "m": 6, "iterable": [], "dict": {}, "init": 1, "kw": 2, "factory": 3}]

INV_STATE = {"evals": 0, "bad": []}


def _keys_ok(self):
    INV_STATE["evals"] += 1
    ks = list(OrderedDict.keys(self))
    low = [k.lower() if isinstance(k, str) else k for k in ks]
    if ks != low or len(set(low)) != len(low):
        INV_STATE["bad"].append(list(ks))
    return True


class InvariantBroken(Exception):
    pass


def attach_invariant():
    import icontract
    from mappyfile.ordereddict import CaseInsensitiveOrderedDict

    if getattr(CaseInsensitiveOrderedDict, "_mf_inv", False):
        return CaseInsensitiveOrderedDict
    icontract.invariant(_keys_ok, error=InvariantBroken)(CaseInsensitiveOrderedDict)
    CaseInsensitiveOrderedDict._mf_inv = True
    return CaseInsensitiveOrderedDict


# keys whose lower-case form and case-folded form differ, or whose upper / lower forms change length (walks only)
UNICODE_KEYS = ["Straße", "STRASSE", "strasse", "µm", "μm", "ΜM", "ſ", "S", "s", "ς", "Σ", "σ", "ﬁ", "FI", "fi", "İ", "i̇", "I", "ı", "Ünï", "ünï",
                # keys shaped like the hidden bookkeeping keys, in other letter cases
                "__TYPE__", "__type__", "__Type__", "__Note__", "__NOTE__", "__x__", "_A_", "__a",
                # keywords that are stored as lists WITHOUT being object lists (a missing one is created like any other key)
                "processing", "PROCESSING", "include", "formatoption", "compfilter", "points", "pattern", "projection", "metadata", "config"]


def ops(keys=None, extra=True):
    """(name, args) descriptors; JSON-able so that a path can be replayed."""
    out = []
    for k in (keys or KEYS):
        out.append(("getitem", [k]))
        out.append(("delitem", [k]))
        out.append(("contains", [k]))
        out.append(("has_key", [k]))
        out.append(("get", [k]))
        out.append(("get", [k, 9]))
        out.append(("pop", [k]))
        out.append(("pop", [k, 9]))
        out.append(("setdefault", [k]))
        out.append(("setdefault", [k, "x"]))
        out.append(("setdefault", [k, [1]]))
        for v in VALS:
            out.append(("setitem", [k, v]))
    if not extra:
        return out
    out.append(("update_map", [{"A": 1, "b": 2}]))
    out.append(("update_map", [{"a": 1, "A": 2}]))
    out.append(("update_map", [{"LAYERS": [1]}]))
    out.append(("update_pairs", [[["B", "x"], ["a", [1]]]]))
    out.append(("update_pairs", [[["Zz", 1], ["ZZ", 2]]]))
    out.append(("update_kw", [{"A": 1}]))
    out.append(("update_kw", [{"b": {}, "LAYERS": "x"}]))
    out.append(("update_both", [{"a": 1}, {"B": 2}]))
    out.append(("update_none", []))
    # the positional argument is itself a Mapfile dict (a loaded block used as a template), alone and together with keywords
    out.append(("update_ci", [[["B", "x"], ["zz", [1]]], {}]))
    out.append(("update_ci", [[["A", 1]], {"B": 2, "LAYERS": "x"}]))
    out.append(("update_ci", [[], {"Zz": 7}]))
    out.append(("update_od", [[["A", 1], ["a", 2]], {"b": 3}]))
    return out


def apply_real(d, name, args):
    args = copy.deepcopy(args)
    if name == "getitem":
        return d[args[0]]
    if name == "setitem":
        d[args[0]] = args[1]
        return None
    if name == "delitem":
        del d[args[0]]
        return None
    if name == "contains":
        return args[0] in d
    if name == "has_key":
        return d.has_key(args[0])
    if name == "get":
        return d.get(*args)
    if name == "pop":
        return d.pop(*args)
    if name == "setdefault":
        return d.setdefault(*args)
    if name == "update_map":
        return d.update(args[0])
    if name == "update_pairs":
        return d.update([tuple(p) for p in args[0]])
    if name == "update_kw":
        return d.update(**args[0])
    if name == "update_both":
        return d.update(args[0], **args[1])
    if name == "update_none":
        return d.update()
    if name == "update_ci":
        src = type(d)(type(d)) if args[1] and len(args[0]) % 2 == 0 else type(d)()
        for k, v in args[0]:
            src[k] = v
        return d.update(src, **args[1])
    if name == "update_od":
        return d.update(OrderedDict(tuple(p) for p in args[0]), **args[1])
    raise AssertionError(name)


def apply_model(m, name, args):
    args = copy.deepcopy(args)
    if name == "getitem":
        return m.getitem(args[0])
    if name == "setitem":
        return m.setitem(*args)
    if name == "delitem":
        return m.delitem(args[0])
    if name in ("contains", "has_key"):
        return m.contains(args[0])
    if name == "get":
        return m.get(*args)
    if name == "pop":
        return m.pop(*args)
    if name == "setdefault":
        return m.setdefault(*args)
    if name == "update_map":
        return m.update(args[0])
    if name == "update_pairs":
        return m.update([tuple(p) for p in args[0]])
    if name == "update_kw":
        return m.update(**args[0])
    if name == "update_both":
        return m.update(args[0], **args[1])
    if name == "update_none":
        return m.update()
    if name in ("update_ci", "update_od"):
        return m.update([tuple(p) for p in args[0]], **args[1])
    raise AssertionError(name)


def mutables(x, acc=None):
    """id -> path of every list / dict reachable from x (hidden __x__ keys included)."""
    acc = {} if acc is None else acc
    stack = [(x, "$")]
    while stack:
        o, path = stack.pop()
        if isinstance(o, dict):
            if id(o) in acc:
                continue
            acc[id(o)] = path
            for k, v in o.items():
                stack.append((v, f"{path}.{k}"))
        elif isinstance(o, list):
            if id(o) in acc:
                continue
            acc[id(o)] = path
            for i, v in enumerate(o):
                stack.append((v, f"{path}[{i}]"))
    return acc


def shared_mutables(a, b):
    ma, mb = mutables(a), mutables(b)
    return sorted(ma[i] for i in ma if i in mb)


HIDDEN_EXTRA = [("__comments__", {"name": ["# c1", "# c2"], "__type__": "# above"}),
                ("__position__", {"line": 3, "column": 1, "name": {"line": 4, "column": 5}}),
                ("__tokens__", [1, [2, {"k": []}]]),
                ("nested", {"inner": [{"deep": [1]}], "__comments__": {"x": ["# y"]}})]


def outcome(f, *a):
    try:
        return ("ret", core.canon(f(*a)))
    except Exception as ex:  # noqa - the exception class is the observation
        return ("exc", type(ex).__name__)


class Driver:
    def __init__(self, ctx):
        self.ctx = ctx
        self.res = ctx.res
        self.cls = attach_invariant()
        self.list_keys = vocab.object_list_keys()
        self.hidden_turn = 0

    def fresh(self, factory):
        fac = self.cls if factory else None
        real = self.cls(fac) if factory else self.cls()
        return real, ODModel(fac, self.list_keys)

    def replay_path(self, factory, path):
        real, model = self.fresh(factory)
        for name, args in path:
            try:
                apply_real(real, name, args)
            except Exception:
                pass
            try:
                apply_model(model, name, args)
            except Exception:
                pass
        return real, model

    def state_fp(self, factory, model):
        return json.dumps([factory, core.canon(model.items())])

    def step(self, factory, path, op):
        """Replay path, apply op on both, compare.  Returns (state fingerprint, real, model) or None on violation."""
        real, model = self.replay_path(factory, path)
        name, args = op
        o_real = outcome(apply_real, real, name, args)
        o_model = outcome(apply_model, model, name, args)
        self.res.count("transitions")
        self.res.count("op:" + name)
        case = {"factory": factory, "path": path, "op": op}
        if o_real != o_model:
            self.res.violation("result-differs-from-model", case, o_real, o_model)
            return None
        items_real = core.canon(list(real.items()))
        items_model = core.canon(model.items())
        if items_real != items_model:
            self.res.violation("items-differ-from-model", case, items_real, items_model)
            return None
        ks = list(real.keys())
        if any(isinstance(k, str) and k != k.lower() for k in ks) or len({str(k).lower() for k in ks}) != len(ks):
            self.res.violation("keys-not-folded", case, ks, "lower-case, unique ignoring case")
            return None
        if len(real) != len(model):
            self.res.violation("len-differs", case, len(real), len(model))
        if INV_STATE["bad"]:
            self.res.violation("class-invariant(icontract)", case, INV_STATE["bad"][:3], "lower-case unique keys")
            INV_STATE["bad"].clear()
        return self.state_fp(factory, model), real, model

    # --- probes run once per new abstract state
    def probes(self, factory, path, real, model):
        case = {"factory": factory, "path": path}
        res = self.res
        cls = self.cls
        items = list(model.items())
        ref = OrderedDict(items)
        res.count("copy_probes")
        # equality with an ordinary ordered dict keyed by the lower-cased keys
        if not (real == ref) or not (dict(real) == dict(ref)):
            res.violation("eq-ordered-dict", case, core.canon(real), core.canon(ref))
        if list(real) != list(ref) or list(real.keys()) != list(ref.keys()) or \
                core.canon(list(real.values())) != core.canon(list(ref.values())):
            res.violation("iteration-differs", case, list(real), list(ref))
        self.copy_kinds(case, real, model, items)
        if self.hidden_turn % 4 == 0 or len(items) <= 1:
            # the same copies of a dict that also holds hidden (__x__) entries with mutable values, as dicts returned by
            # loads(include_comments / include_position) do, and values nested three levels deep
            real2 = real.copy()
            m2 = ODModel(model.factory, self.list_keys, copy.deepcopy(items))
            for k, v in copy.deepcopy(HIDDEN_EXTRA):
                real2[k] = v
                m2.setitem(k, copy.deepcopy(v))
            res.count("hidden_copy_probes")
            self.copy_kinds(dict(case, hidden=True), real2, m2, list(m2.items()))
        self.hidden_turn += 1
        # construction from mapping / pairs / kwargs in mixed case
        self.ctor_probes(case, factory, items)

    def copy_kinds(self, case, real, model, items):
        res = self.res
        cls = self.cls
        before = core.fp(real)
        for kind, mk in (("copy", lambda: real.copy()), ("copy.copy", lambda: copy.copy(real)),
                         ("deepcopy", lambda: copy.deepcopy(real)),
                         ("pickle", lambda: pickle.loads(pickle.dumps(real))),
                         ("pickle-p2", lambda: pickle.loads(pickle.dumps(real, protocol=2)))):
            try:
                c = mk()
            except Exception as ex:
                res.violation(kind + "-raises", case, type(ex).__name__ + ": " + str(ex), "a copy")
                continue
            if type(c) is not cls:
                res.violation(kind + "-class", case, type(c).__name__, cls.__name__)
                continue
            if c.default_factory is not real.default_factory:
                res.violation(kind + "-factory", case, repr(c.default_factory), repr(real.default_factory))
            if core.canon(list(c.items())) != core.canon(items) or not (c == real):
                res.violation(kind + "-not-equal", case, core.canon(list(c.items())), core.canon(items))
            # behaves the same under a probe sequence
            m2 = ODModel(model.factory, self.list_keys, items and copy.deepcopy(items))
            for name, args in (("getitem", ["A"]), ("getitem", ["LAYERS"]), ("getitem", ["nokey"]),
                               ("setitem", ["B", 5]), ("pop", ["zz", 0]), ("contains", ["Layers"])):
                o1 = outcome(apply_real, c, name, args)
                o2 = outcome(apply_model, m2, name, args)
                if o1 != o2 or core.canon(list(c.items())) != core.canon(m2.items()):
                    res.violation(kind + "-behaviour", dict(case, probe=[name, args]), [o1, core.canon(list(c.items()))],
                                  [o2, core.canon(m2.items())])
                    break
            if kind in ("deepcopy", "pickle", "pickle-p2"):
                res.count("identity_walks")
                sh = shared_mutables(real, c)
                if sh:
                    res.violation(kind + "-shares-mutable-object", case, sh[:6], "no list or dict of the original reachable from the copy")
                # mutate every nested mutable of the copy; the original must not notice
                for v in c.values():
                    if isinstance(v, list):
                        v.append("MUT")
                    elif isinstance(v, dict):
                        v["mut"] = 1
            if core.fp(real) != before:
                res.violation(kind + "-shares-state", case, core.canon(real), "original unchanged")
                before = core.fp(real)

    def ctor_probes(self, case, factory, items):
        res = self.res
        cls = self.cls
        fac = (cls,) if factory else (None,)
        up = [(k.upper(), v) for k, v in items]
        ctors = [("ctor-pairs", lambda: cls(*fac, copy.deepcopy(items))),
                 ("ctor-pairs-upper", lambda: cls(*fac, copy.deepcopy(up))),
                 ("ctor-dict-upper", lambda: cls(*fac, dict(copy.deepcopy(up)))),
                 ("ctor-kwargs-upper", lambda: cls(*fac, **dict(copy.deepcopy(up))))]
        for kind, mk in ctors:
            try:
                c = mk()
            except Exception as ex:
                res.violation(kind + "-raises", case, type(ex).__name__ + ": " + str(ex), "a dict")
                continue
            if core.canon(list(c.items())) != core.canon(items):
                res.violation(kind, case, core.canon(list(c.items())), core.canon(items))
        # keyword arguments named like the parameters such classes tend to have: every keyword is a key (VALUES is a Mapfile block)
        for kw in PARAM_LIKE:
            res.count("ctor_param_like_keywords")
            try:
                c = cls(*fac, **copy.deepcopy(kw))
            except Exception as ex:
                res.violation("ctor-kwargs-named-raises", dict(case, kwargs=core.canon(kw)), type(ex).__name__ + ": " + str(ex), "a dict")
                continue
            if core.canon(list(c.items())) != core.canon(list(kw.items())):
                res.violation("ctor-kwargs-named", dict(case, kwargs=core.canon(kw)), core.canon(list(c.items())), core.canon(list(kw.items())))


def run(ctx):
    drv = Driver(ctx)
    res = ctx.res
    allops = ops()
    walkops = allops + ops(UNICODE_KEYS, extra=False) + [("update_map", [{"STRASSE": 1, "Straße": 2}]), ("update_kw", [{"ΜM": 1, "µm": 2}])] + \
        [("update_kw", [kw]) for kw in PARAM_LIKE] + [("update_both", [{"a": 1}, kw]) for kw in PARAM_LIKE[:2]] + \
        [("setitem", ["LAYERS", [{"NAME": "x"}]]), ("setitem", ["classes", [{"Name": "c"}, 1]]), ("update_map", [{"Classes": [{"Name": "c"}], "a": 1}]),
         ("update_kw", [{"layers": [{"NAME": "x"}]}]), ("update_pairs", [[["STYLES", [{"Size": 1}, {}]]]]),
         ("update_ci", [[["Layers", [{"NAME": "x", "CLASSES": [{"Name": "y"}]}]]], {}]), ("setdefault", ["LAYERS", [{"NAME": "x"}]])]
    # (values handed over for the object-list keys are stored as they are, plain dictionaries inside included: an ordinary dict does not
    # convert what it is given)
    depth = 3 if ctx.quick else 4
    seen = set()
    for factory in (True, False):
        real, model = drv.fresh(factory)
        s0 = drv.state_fp(factory, model)
        seen.add(s0)
        if ctx.shard == 0:
            res.seen("states", s0)
            drv.probes(factory, [], real, model)
        frontier = [[]]
        for level in range(depth):
            nxt = []
            for path in frontier:
                for i, op in enumerate(allops):
                    if level == 0 and not ctx.mine(i):
                        continue
                    r = drv.step(factory, path, op)
                    if r is None:
                        continue
                    s, real, model = r
                    if s not in seen:
                        seen.add(s)
                        res.seen("states", s)
                        res.seen("state-class", f"factory={factory} n={len(model)}")
                        res.seen("op-x-state", f"{op[0]} n={len(model)}")
                        newpath = path + [op]
                        drv.probes(factory, newpath, real, model)
                        nxt.append(newpath)
                        if len(res.samples) < 3 and level == depth - 1:
                            res.sample({"factory": factory, "ops": newpath, "items": model.items()})
            frontier = nxt
            res.maximum("bfs_depth", level + 1)
    # every object-list key of the schemas reads as a new empty list that is stored
    if ctx.shard == 0:
        for k in sorted(vocab.object_list_keys()):
            for kk in (k, k.upper(), k.title()):
                real, model = drv.fresh(True)
                v = real[kk]
                res.count("list_key_reads")
                if v != [] or not isinstance(v, list) or list(real.items()) != [(k, [])] or real[k] is not v:
                    res.violation("object-list-key-read", {"key": kk}, core.canon(real), [[k, []]])
    # dictionaries as the library itself returns them (comments and positions kept: hidden keys with mutable values)
    if ctx.shard in (0, 1):
        import mappyfile
        from .. import corpus
        texts = [t for _, t in corpus.texts() if "INCLUDE" not in t.upper() and "#" in t and len(t) < 6000]
        texts = texts[:16 if ctx.quick else 120]
        for t in texts[ctx.shard::2]:
            for kw in ({"include_comments": True, "include_position": True}, {"include_comments": True}, {}):
                try:
                    d = mappyfile.loads(t, **kw)
                except Exception:
                    continue
                if not isinstance(d, dict):
                    continue
                res.count("parsed_dict_probes")
                case = {"factory": True, "path": [], "text": t[:4000], "kwargs": kw}
                before = core.fp(d)
                for kind, mk in (("deepcopy", lambda: copy.deepcopy(d)), ("pickle", lambda: pickle.loads(pickle.dumps(d)))):
                    try:
                        c = mk()
                    except Exception as ex:
                        res.violation("parsed:" + kind + "-raises", case, type(ex).__name__ + ": " + str(ex), "a copy")
                        continue
                    res.count("identity_walks")
                    if core.fp(c) != before or type(c) is not type(d):
                        res.violation("parsed:" + kind + "-not-equal", case, core.first_diff(core.canon(d), core.canon(c)), "equal copy")
                    sh = shared_mutables(d, c)
                    if sh:
                        res.violation("parsed:" + kind + "-shares-mutable-object", case, sh[:6], "no shared list or dict")
    # random walks beyond the BFS bound
    r = ctx.rng("walk")
    nwalks = ctx.n(200, 20000)
    for w in range(nwalks):
        factory = r.random() < 0.7
        real, model = drv.fresh(factory)
        path = []
        for step in range(200):
            op = r.choice(walkops if w % 2 else allops)
            o_real = outcome(apply_real, real, *op)
            o_model = outcome(apply_model, model, *op)
            res.count("transitions")
            res.count("walk_steps")
            path.append(op)
            if o_real != o_model or core.canon(list(real.items())) != core.canon(model.items()):
                res.violation("walk-differs-from-model", {"factory": factory, "path": path},
                              [o_real, core.canon(list(real.items()))], [o_model, core.canon(model.items())])
                break
        if INV_STATE["bad"]:
            res.violation("class-invariant(icontract)", {"factory": factory, "path": path}, INV_STATE["bad"][:3], "")
            INV_STATE["bad"].clear()
        if w % 50 == 0:
            drv.probes(factory, path, real, model)
    res.count("invariant_evals", INV_STATE["evals"])
    if not ctx.quick and ctx.shard == 0:
        from .. import suite
        data, tail = suite.run_suite()
        if data is None:
            res.inconclusive_because("repository test-suite under contracts did not finish: " + str(tail)[-200:])
        else:
            res.count("suite_tests", data["tests"])
            res.count("suite_invariant_evals", data["invariant_evals"])
            for x in data["dict_invariant"]:
                res.violation("under-repo-tests:class-invariant(icontract)", {"factory": None, "path": [], "test": x["test"]}, x["keys"], None)


def replay(ctx, v):
    drv = Driver(ctx)
    case = v["case"]
    if "op" in case:
        r = drv.step(case["factory"], case["path"], case["op"])
        if r:
            drv.probes(case["factory"], case["path"] + [case["op"]], r[1], r[2])
    elif "path" in case:
        real, model = drv.fresh(case["factory"])
        path = []
        for op in case["path"]:
            path.append(op)
            o_real = outcome(apply_real, real, *op)
            o_model = outcome(apply_model, model, *op)
            if o_real != o_model or core.canon(list(real.items())) != core.canon(model.items()):
                ctx.res.violation("walk-differs-from-model", {"factory": case["factory"], "path": path},
                                  [o_real, core.canon(list(real.items()))], [o_model, core.canon(model.items())])
                break
        drv.probes(case["factory"], case["path"], real, model)
    else:
        run(ctx)
