"""C04 - formatting is a deterministic normal form (idempotent).

Deciding monitor: relations over recorded (parse, pprint) events: t1 = dumps(loads(t0), **o), t2 = dumps(loads(t1), **o)
must be byte-identical and loads(t1) == loads(t2) exactly; the same dictionary and options printed twice (fresh and
reused printer, and - thorough - in subprocesses with different PYTHONHASHSEED) must give the same text.
"""
from __future__ import annotations

import copy
import hashlib
import json
import os
import subprocess
import sys

from .. import core, corpus, engine, gen, relations, render
from ..engine import Engine

RULE = ("every corpus file and generated document is formatted once, then formatted again from its own output under the same option "
        "set (quick: ~48 pairwise-covering sets; thorough: all 864 on a slice + covering sets on everything); byte equality of the two "
        "texts and exact equality of their loads; determinism by printing twice in-process and (thorough) across hash seeds; "
        "distinct = distinct (formatted text, option set)")
EVAL_KEY = "pairs_judged"
DISTINCT_KEY = "pairs"
NSHARDS = {"quick": 8, "thorough": 16}
FLOORS = {"quick": {"pairs_judged": 4000, "distinct:option-sets": 40, "determinism_checks": 4000, "list_layout_documents": 60},
          "thorough": {"pairs_judged": 80000, "distinct:option-sets": 500, "determinism_checks": 80000, "hash_seed_digests": 3, "list_layout_documents": 1200}}
ASSUMPTIONS = ["byte equality and exact dictionary equality need no model"]
DOMAIN = gen.DOMAIN + ["loads is called as in the statement (no kept comments): idempotence with include_comments=True is not claimed by the "
                       "property (END comments of the first pass would be read back as source comments)","documents whose strings contain the output quote character or a backslash are skipped for that quote (documented)",
                       "newlinechar=' ' only when no comment is emitted"]


def h(s):
    return hashlib.sha1(s.encode()).hexdigest()[:12]


def judge(ctx, eng, text, o, label, ident, comments=False):
    res = ctx.res
    try:
        d0 = eng.loads(text, include_comments=comments)
    except Exception:
        res.count("not_accepted:" + label)
        return
    if relations.contains_quote(d0, o["quote"]) or relations.has_backslash(d0):
        res.count("excluded:quote-or-backslash-in-string")
        return
    if o["newlinechar"] == " " and (o["end_comment"] or comments):
        res.count("excluded:space-newline-with-comments")
        return
    case = {"workload": label, "doc": ident, "options": o, "comments": comments, "text": text if len(text) < 20000 else None}
    try:
        t1 = eng.dumps(copy.deepcopy(d0), **o)
        d1 = eng.loads(t1, include_comments=comments)
    except Exception as ex:
        res.count("first-pass-failed:" + type(ex).__name__)  # C01 / C06 judge acceptance of the first pass
        return
    res.count("pairs_judged")
    res.seen("pairs", h(t1 + engine.opt_key(o)))
    res.seen("option-sets", engine.opt_key(o))
    # determinism: same dictionary + options -> same text (reused printer, fresh printer, public API)
    res.count("determinism_checks")
    a = eng.printer(**o).pprint(copy.deepcopy(d1))
    b = eng.PP(**o).pprint(copy.deepcopy(d1))
    if a != b:
        res.violation("same-input-different-text", dict(case, t1=t1[:3000]), _first_text_diff(a, b), None)
    if not o["separate_complex_types"]:
        # the very same dictionary object printed twice, then compared with a fresh load of the same text
        same = copy.deepcopy(d1)
        c1 = eng.printer(**o).pprint(same)
        c2 = eng.printer(**o).pprint(same)
        if c1 != c2:
            res.violation("same-dictionary-object-printed-twice-differs", dict(case, t1=t1[:3000]), _first_text_diff(c1, c2), None)
        if core.plain(same) != core.plain(d1):
            res.violation("dictionary-differs-from-a-fresh-load-after-dumps", dict(case, t1=t1[:3000]), core.first_diff(core.plain(d1), core.plain(same)), None)
    try:
        t2 = a
        d2 = eng.loads(t2, include_comments=comments)
    except Exception as ex:
        res.violation("second-pass-not-accepted", dict(case, t1=t1[:3000]), f"{type(ex).__name__}: {str(ex)[:200]}", None)
        return
    if t2 != t1:
        res.violation("formatting-not-idempotent", dict(case, t1=t1[:3000]), _first_text_diff(t1, t2), None)
    if core.plain(d1) != core.plain(d2):
        res.violation("loads-of-formatted-text-not-stable", dict(case, t1=t1[:3000]), core.first_diff(core.plain(d1), core.plain(d2)), None)
    return t1


def _first_text_diff(a, b):
    la, lb = a.split("\n"), b.split("\n")
    for i, (x, y) in enumerate(zip(la, lb)):
        if x != y:
            return {"line": i + 1, "first": x[:200], "second": y[:200]}
    return {"lines": [len(la), len(lb)], "tail_first": la[len(lb):][:3], "tail_second": lb[len(la):][:3]}


def digest_slice(seed):
    """Digest of all outputs of a fixed slice (run in subprocesses with different PYTHONHASHSEED)."""
    from .. import findings

    gated = set(findings.all_gates())
    r = core.rng(seed, "c04-digest")
    eng = Engine(public_every=0)
    hh = hashlib.sha256()
    osets = engine.covering_option_sets(core.rng(seed, "c04-opts"), 48)
    for j in range(200):
        nodes = gen.gen_document(r, gen.GenOpts(gated=gated, p_key=0.3, dup=0.0))
        try:
            d = eng.loads(render.render(nodes).text)
        except Exception as ex:
            hh.update(("load:" + type(ex).__name__).encode())
            continue
        o = osets[j % len(osets)]
        try:
            hh.update(eng.dumps(d, **o).encode())
        except Exception as ex:
            hh.update(type(ex).__name__.encode())
    return hh.hexdigest()


def run(ctx):
    eng = Engine(public_every=150)
    res = ctx.res
    r = ctx.rng("c04")
    cover = engine.covering_option_sets(r, 48)
    allsets = engine.all_option_sets()
    docs = [("corpus", corpus.rel(p), t) for p, t in corpus.texts(ctx)]
    for j in range(ctx.n(400, 4000)):
        nodes = gen.gen_document(r, gen.GenOpts(gated=ctx.gated, p_key=r.choice([0.2, 0.4]), dup=0.02))
        s = render.surfaces(r, 1)[0] if r.random() < 0.5 else render.CANONICAL
        text = render.render(nodes, s, r).text
        docs.append(("gen", h(text), text))
    # list expressions in every layout people write them in (blanks around the commas and inside the braces), alone and as the
    # right-hand side of IN
    for j in range(ctx.n(80, 1600)):
        els = [r.choice(["motorway", "trunk", "a", "Main_St", "01", "2.50", "+3", "1e3", ".5", "x1", "class one", "10", "-7"]) for _ in range(r.randint(1, 5))]
        lst = "{" + r.choice(["", "", " "]) + els[0]
        for e in els[1:]:
            lst += r.choice(["", "", " "]) + "," + " " * r.choice([0, 0, 1, 1, 2, 3, 4]) + e
        lst += r.choice(["", "", " "]) + "}"
        host = r.choice(["CLASS\n  EXPRESSION %s\nEND\n", "CLASS\n  NAME \"c\"\n  EXPRESSION ([kind] IN %s)\nEND\n",
                         "LAYER\n  CLASS\n    EXPRESSION %s\n  END\n  CLASS\n    EXPRESSION (\"[k]\" IN %s AND [n] > 1)\n  END\nEND\n"])
        text = host % ((lst,) * host.count("%s"))
        res.count("list_layout_documents")
        docs.append(("list-layout", h(text), text))
    for idx, (label, ident, text) in enumerate(docs):
        if ctx.quick:
            osets = r.sample(cover, 8)
        else:
            osets = allsets if idx % 40 == 0 else r.sample(cover, 12)
        for o in osets:
            t1 = judge(ctx, eng, text, o, label, ident)
        res.count("docs:" + label)
        if t1 and len(res.samples) < 2 and 100 < len(t1) < 600:
            res.sample({"options": engine.opt_key(o), "formatted-twice-identical": t1})
    if not ctx.quick and ctx.shard == 0:
        digs = {}
        for hs in ("0", "1", "random"):
            env = dict(os.environ, PYTHONHASHSEED=hs)
            p = subprocess.run([core.PY, "-c", "import sys; sys.path.insert(0, %r); from mf import core; core.setup_env(); "
                                "from mf.workloads import C04; print(C04.digest_slice(%d))" % (core.VERIF, ctx.seed)],
                               env=env, capture_output=True, text=True, timeout=600)
            if p.returncode != 0:
                res.inconclusive_because("hash-seed digest subprocess failed: " + p.stderr[-300:])
                break
            digs[hs] = p.stdout.strip().split("\n")[-1]
            res.count("hash_seed_digests")
        res.notes.append(f"digests per PYTHONHASHSEED: {digs}")
        if len(digs) == 3 and len(set(digs.values())) != 1:
            res.violation("output-depends-on-hash-seed", {"digests": digs, "options": None, "doc": "200-document slice"}, digs, "one digest")


def replay(ctx, v):
    eng = Engine(public_every=0)
    case = v["case"]
    text = case.get("text")
    if text is None:
        text = open(os.path.join(core.REPO, case["doc"]), encoding="utf-8").read()
    judge(ctx, eng, text, case["options"], "replay", case["doc"], case.get("comments", False))
