"""C02 - parsed dictionary follows the documented text-to-dict contract.

Deciding monitor: loads(render(IR)) compared with expect(IR) (the generator knows the intended structure) + an
icontract postcondition on MapfileToDict.transform (well-formedness of every result) + the duplicate-key WARNING
records of the `mappyfile` logger.
"""
from __future__ import annotations

import copy
import hashlib

from .. import core, corpus, expect, gen, render, vocab
from ..engine import Engine
from ..mon import audit, contracts

RULE = ("documents generated from the JSON-schema vocabulary: exhaustive sweep of every (object, keyword, value alternative) x "
        "position (only/first/middle/last) plus random documents (depth <= 5, up to 300 objects, duplicates, repeated "
        "keywords/POINTS/CONFIG) written by the independent renderer in canonical layout; loads() result compared with the "
        "dictionary the documented contract promises for the intended structure; distinct = distinct rendered text; "
        "non-trivial = every document has at least one keyword")
EVAL_KEY = "documents_judged"
DISTINCT_KEY = "documents"
NSHARDS = {"quick": 8, "thorough": 16}
FLOORS = {"quick": {"documents_judged": 2500, "vocab_docs": 1500, "transform_contract_evals": 2500, "distinct:slots": 380,
                    "dup_key_docs": 10},
          "thorough": {"documents_judged": 40000, "vocab_docs": 1500, "transform_contract_evals": 40000,
                       "distinct:slots": 380, "dup_key_docs": 500}}
ASSUMPTIONS = ["mf/expect.py restates docs/transformer.rst and the property text; singleton vs plural storage is read from the schemas",
               "expression-valued keywords are compared through the C10 tree oracle, not as strings",
               "the position of a key given twice is not compared (the statement fixes only 'last value')"]
DOMAIN = gen.DOMAIN

VIOL = []


class ContractBroken(Exception):
    pass


STATE = {"position": False, "comments": False}


def post_transform(self, tree, result):
    contracts.bump("transform")
    r = result if isinstance(result, list) else [result]
    for d in r:
        w = expect.wellformed(d, position=self.include_position, comments=self.include_comments)
        if w:
            VIOL.append(w)
    return True


def attach():
    import icontract
    from mappyfile.transformer import MapfileToDict

    if getattr(MapfileToDict, "_mf_c02", False):
        return
    MapfileToDict.transform = icontract.ensure(post_transform, error=ContractBroken)(MapfileToDict.transform)
    MapfileToDict._mf_c02 = True


QUOTE_SURFACES = [render.CANONICAL, render.Surface(quote="sq", name="single-quoted"), render.Surface(quote="random", name="mixed-quotes"),
                  render.Surface(numspell=1.0, name="numbers-respelled")]


def judge(ctx, eng, nodes, label, slot=None, surface=None):
    res = ctx.res
    text = render.render(nodes, surface or render.CANONICAL, ctx.rng("c02-quote", label, slot)).text
    case = {"workload": label, "text": text}
    res.count("documents_judged")
    res.seen("documents", hashlib.sha1(text.encode()).hexdigest()[:12])
    try:
        d = eng.loads(text)
    except Exception as ex:
        res.violation("generated-document-not-accepted", case, f"{type(ex).__name__}: {str(ex)[:300]}", "a dictionary", slot=slot)
        return None
    want = expect.expect_doc(nodes)
    diff = expect.compare(want, d)
    if diff:
        res.violation("dict-differs-from-contract", case, diff, None, slot=slot)
    if VIOL:
        res.violation("transform-result-not-wellformed", case, VIOL[:3], None)
        VIOL.clear()
    # what loads returns belongs to the caller: no list or dictionary occurs twice inside one result ("nothing ... attached to a
    # different object"), and editing a result in place does not reach what a later call returns (every later document in this
    # process is judged against its own text, so a shared object would show there)
    seen_ids = {}
    stack = [("$", d)]
    while stack:
        path, x = stack.pop()
        if isinstance(x, (list, dict)):
            if id(x) in seen_ids:
                res.violation("one-mutable-object-at-two-places-of-the-result", case, [seen_ids[id(x)], path], "separate objects", slot=slot)
                break
            seen_ids[id(x)] = path
            for k2, v2 in (x.items() if isinstance(x, dict) else enumerate(x)):
                stack.append((f"{path}.{k2}", v2))
    res.count("results_walked_for_shared_objects")
    for obj in [o for o in _mutables(d)]:
        if isinstance(obj, list):
            obj.append("edited by the caller")
            if len(obj) > 1:
                obj[0] = "edited by the caller"
        else:
            obj["zz_edited_by_the_caller"] = "x"
    res.count("results_edited_in_place_after_judging")
    return d


def _mutables(d):
    out = []
    stack = [d]
    while stack:
        x = stack.pop()
        if isinstance(x, (list, dict)):
            out.append(x)
            stack.extend(x.values() if isinstance(x, dict) else x)
    return out


def run(ctx):
    attach()
    eng = Engine(public_every=40)
    res = ctx.res
    logs = audit.LogObserver()
    r = ctx.rng("c02")
    # ---- W-vocab: exhaustive
    for i, (o, k, ai) in enumerate(gen.vocab_slots()):
        if not ctx.mine(i):
            continue
        p = vocab.prop(o, k)
        a = p.alts[ai]
        if (o, k) in gen.UNWRITABLE or (a.kind == "block" and (o, k + ":block") in gen.UNWRITABLE):
            res.count("slots_skipped_unwritable")
            continue
        for pos in ("only", "first", "middle", "last"):
            if o == "querymap" and k != "style" and pos != "only" and "querymap-style-keyword" in ctx.gated:
                pass
            node, it = gen.vocab_doc(r, o, k, ai, pos)
            gen.apply_gates(node, ctx.gated)
            res.count("vocab_docs")
            res.seen("slots", f"{o}.{k}:{a.kind}")
            res.seen("slot-positions", f"{o}.{k}:{a.kind}:{pos}")
            # quoted values (strings, hex colours, key-value pairs) are written with both quote characters over the sweep
            judge(ctx, eng, [node], "vocab", slot=f"{o}.{k}:{a.kind}:{pos}",
                  surface=QUOTE_SURFACES[("only", "first", "middle", "last").index(pos)])
    logs.take()
    # ---- W-gen: random documents
    n = ctx.n(1600, 45000)
    for j in range(n):
        big = r.random() < 0.05
        opts = gen.GenOpts(gated=ctx.gated, max_objects=r.choice([150, 300, 500]) if big else 60, p_key=r.choice([0.15, 0.3, 0.5]),
                           p_child=0.95 if big else 0.6, decay=1.0 if big else 0.6, dup=r.choice([0.0, 0.05, 0.15]),
                           dup_blocks=r.choice([0.0, 0.0, 0.15]))
        nodes = gen.gen_document(r, opts, root="map" if big else None)
        nobj = sum(x.count() for x in nodes)
        depth = max(x.depth() for x in nodes)
        res.count(f"objects<={10 if nobj <= 10 else 50 if nobj <= 50 else 100 if nobj <= 100 else 300}")
        res.count(f"depth={depth}")
        res.maximum("max_objects", nobj)
        kv_dups = 0
        attr_dups = 0
        for nd in (x for root in nodes for x in root.walk()):
            seen = set()
            for it in nd.items:
                if it.kind == "kv":
                    ks = [kt.text.lower() for kt, _ in it.pairs]
                    kv_dups += len(ks) - len(set(ks))
                if it.kind == "attr":
                    if it.key in seen:
                        attr_dups += 1
                    seen.add(it.key)
                for sh in ([it.shape] if it.shape else []):
                    res.seen("shapes", sh)
        if kv_dups or attr_dups:
            res.count("dup_key_docs")
        logs.take()
        d = judge(ctx, eng, nodes, "gen", surface=QUOTE_SURFACES[j % 4])
        if d is not None:
            warns = [m for lv, m in logs.take() if lv == "WARNING" and "duplicate key" in m]
            res.count("dup_warnings_expected", kv_dups)
            res.count("dup_warnings_observed", len(warns))
            if len(warns) != kv_dups:
                res.violation("duplicate-key-warning-count", {"workload": "gen", "text": render.render(nodes).text},
                              len(warns), kv_dups)
        if len(res.samples) < 2 and 3 <= nobj <= 6:
            res.sample({"text": render.render(nodes).text[:1500]})
    # ---- the transform contract over the corpus as well (well-formedness only)
    for path, text in corpus.texts(ctx):
        try:
            eng.loads(text)
            res.count("corpus_files_transformed")
        except Exception:
            res.count("corpus_files_rejected")
        if VIOL:
            res.violation("transform-result-not-wellformed", {"file": corpus.rel(path)}, VIOL[:3], None)
            VIOL.clear()
    res.count("transform_contract_evals", contracts.EVALS.get("transform", 0))
    res.count("public_api_calls", eng.public_calls)


def replay(ctx, v):
    attach()
    eng = Engine(public_every=0)
    case = v["case"]
    if "text" in case:
        try:
            d = eng.loads(case["text"])
        except Exception as ex:
            ctx.res.violation("generated-document-not-accepted", case, f"{type(ex).__name__}: {str(ex)[:300]}", "a dictionary")
            return
        print("loads ->", d)
        print("recorded difference:", v.get("observed"))
        if v["kind"] != "generated-document-not-accepted":
            ctx.res.violation(v["kind"], case, v.get("observed"), "see the intended structure in the original run (replay shows the parse only)")
