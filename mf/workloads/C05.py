"""C05 - surface syntax does not change meaning.

Deciding monitor: metamorphic relation over recorded parse events - all renderings of one intended structure give
identical dictionaries (and the dictionary the contract promises); a corpus file and its whitespace/comment
perturbations give identical dictionaries.
"""
from __future__ import annotations

import hashlib
import os

from .. import core, corpus, expect, gen, render, vocab
from ..engine import Engine

RULE = ("each generated document is rendered under 8 random surface policies (per-token keyword case, separators from space/tab/"
        "form feed/LF/CRLF/# comment/C comment, quote style per string, bare-word strings unquoted, one-line / per-line / spread "
        "layouts) and all results must be exactly equal; the vocabulary sweep is rendered in lower and random keyword case; each "
        "corpus file has every non-empty inter-token gap rewritten 4 times; an INCLUDE directive naming a real file is written in 16 "
        "letter cases x 4 layouts x 2 quote styles; distinct = distinct rendered text")
EVAL_KEY = "evaluations"
DISTINCT_KEY = "renderings"
NSHARDS = {"quick": 8, "thorough": 16}
FLOORS = {"quick": {"renderings_judged": 3500, "corpus_perturbations": 600, "distinct:gap-kinds": 60, "irs": 150, "include_directive_spellings": 100},
          "thorough": {"renderings_judged": 80000, "corpus_perturbations": 1600, "distinct:gap-kinds": 80, "irs": 8000, "include_directive_spellings": 100}}
ASSUMPTIONS = ["the renderer (mf/render.py) varies only what the property lists; what a rendering means is fixed by the IR",
               "corpus gaps are located with mappyfile's own lexer (input generation only, never the oracle)"]
DOMAIN = gen.DOMAIN + ["a gap between two tokens is never emptied; gaps that are empty in the source (e.g. inside [name]) stay empty",
                       "TRUE/FALSE and bare enumerated values keep their case (they are values, not keywords)"]


def h(s):
    return hashlib.sha1(s.encode()).hexdigest()[:12]


def judge_ir(ctx, eng, nodes, surfaces, r, label, slot=None):
    res = ctx.res
    want = expect.expect_doc(nodes)
    ref = None
    ref_text = None
    for s in surfaces:
        rr = render.render(nodes, s, r)
        text = rr.text
        res.count("renderings_judged")
        res.seen("renderings", h(text))
        for g in rr.gaps:
            res.seen("gap-kinds", f"{g[0]}|{g[1]}|{g[2]}")
        res.seen("surfaces", f"{s.kwcase}/{s.layout}/{'CRLF' if s.eol != chr(10) else 'LF'}/{s.quote}/bare{s.bare}")
        case = {"workload": label, "text": text, "surface": s.describe(), "slot": slot}
        try:
            d = eng.loads(text)
        except Exception as ex:
            res.violation("rendering-not-accepted", case, f"{type(ex).__name__}: {str(ex)[:300]}",
                          {"accepted-rendering": ref_text})
            continue
        diff = expect.compare(want, d)
        if diff:
            res.violation("rendering-differs-from-intended", case, diff, None)
            continue
        pd = core.plain(d)
        if ref is None:
            ref, ref_text = pd, text
        elif pd != ref:
            # expressions are compared structurally by expect.compare; exact equality between renderings is required for the rest
            dd = core.first_diff(ref, pd)
            res.violation("renderings-disagree", case, dd, {"other-rendering": ref_text})


def token_spans(eng, text):
    """(start, end) of every token, using mappyfile's own interactive lexer/parser (input generation only)."""
    from mappyfile.parser import SYMBOL_ATTRIBUTES

    p = eng._parsers.get((False, False))
    if p is None:
        eng.loads("MAP END", expand_includes=False)
        p = eng._parsers[(False, False)]
    ip = p.lalr.parse_interactive(text)
    spans = []
    for t in ip.iter_parse():
        vs = ip.parser_state.value_stack
        last = vs[-1] if vs else None
        if t.type == "UNQUOTED_STRING":
            if isinstance(last, str) and last.upper() == "SYMBOL" and t.value.upper() not in SYMBOL_ATTRIBUTES:
                t.type = "UNQUOTED_STRING_VALUE"
        elif t.type == "GRID":
            if vs and last == "NAME":
                t.type = "UNQUOTED_STRING_VALUE"
        spans.append((t.start_pos, t.end_pos))
    return spans


def perturb(text, spans, r, mode):
    out = []
    pos = 0
    n = 0
    kinds = set()
    for (s, e) in spans:
        gap_text = text[pos:s]
        if pos == 0 or gap_text == "":
            out.append(gap_text)
        else:
            n += 1
            k = r.random()
            if mode == 0:
                g = r.choice([" ", "  ", "\t", " \t ", "\f"])
                kinds.add("ws")
            elif mode == 1:
                g = r.choice(["\n", "\r\n", "\n\n", " \n\t", "\r\n  "])
                kinds.add("eol")
            elif mode == 2:
                if k < 0.5:
                    g = " # " + render.rand_comment_text(r) + r.choice(["\n", "\r\n"])
                    kinds.add("#")
                else:
                    g = r.choice([" ", "\n"]) + "/* " + render.rand_comment_text(r).replace("*/", "") + \
                        r.choice(["", "\n second line"]) + " */" + r.choice([" ", "\n", "\t"])
                    kinds.add("/**/")
            else:
                g = r.choice([" ", "\n", "\t", "\r\n", "\f ", " # c\n", " /* c */ ", "\n\n\t"])
                kinds.add("mixed")
            out.append(g)
        out.append(text[s:e])
        pos = e
    out.append(text[pos:])
    return "".join(out), n, kinds


def run(ctx):
    eng = Engine(public_every=60)
    res = ctx.res
    r = ctx.rng("c05")
    gopts = gen.GenOpts(gated=ctx.gated)
    # ---- W-gen x 8 surfaces
    n = ctx.n(200, 9000)
    for j in range(n):
        opts = gen.GenOpts(gated=ctx.gated, p_key=r.choice([0.15, 0.3, 0.5]), dup=0.0)
        nodes = gen.gen_document(r, opts)
        res.count("irs")
        judge_ir(ctx, eng, nodes, [render.CANONICAL] + render.surfaces(r, 8), r, "gen")
        if len(res.samples) < 2 and j > 3:
            s = render.surfaces(r, 1)[0]
            res.sample({"surface": s.describe(), "text": render.render(nodes, s, r).text[:800]})
    # ---- W-vocab in lower / random keyword case, bare strings
    lower = render.Surface(kwcase="lower", bare=1.0, quote="sq")
    rnd = render.Surface(kwcase="random", layout="oneline", bare=0.5, quote="random", ws_kinds=[" ", "\t"])
    for i, (o, k, ai) in enumerate(gen.vocab_slots()):
        if not ctx.mine(i):
            continue
        p = vocab.prop(o, k)
        a = p.alts[ai]
        if (o, k) in gen.UNWRITABLE or (a.kind == "block" and (o, k + ":block") in gen.UNWRITABLE):
            continue
        for pos in (("only", "first", "last") if ctx.quick else ("only", "first", "middle", "last")):
            node, it = gen.vocab_doc(r, o, k, ai, pos)
            gen.apply_gates(node, ctx.gated)
            res.count("vocab_irs")
            judge_ir(ctx, eng, [node], [lower, rnd], r, "vocab", slot=f"{o}.{k}:{a.kind}:{pos}")
    # ---- corpus: rewrite every non-empty gap
    for path, text in corpus.texts(ctx):
        try:
            ref = eng.loads(text)
        except Exception:
            res.count("corpus_files_not_parseable")
            continue
        try:
            spans = token_spans(eng, text)
        except Exception as ex:
            import lark
            if not isinstance(ex, lark.exceptions.LarkError):
                res.inconclusive_because(f"token_spans failed with {type(ex).__name__}: {ex} (harness error, not a lexing error)")
            res.count("corpus_files_not_lexed")
            continue
        pref = core.plain(ref)
        for mode in range(4):
            t2, ngaps, kinds = perturb(text, spans, r, mode)
            res.count("corpus_perturbations")
            res.count("corpus_gaps_rewritten", ngaps)
            res.seen("renderings", h(t2))
            case = {"workload": "corpus", "file": corpus.rel(path), "mode": mode, "text": t2 if len(t2) < 20000 else t2[:20000]}
            try:
                d2 = eng.loads(t2)
            except Exception as ex:
                res.violation("perturbed-corpus-file-not-accepted", case, f"{type(ex).__name__}: {str(ex)[:300]}", "same as original")
                continue
            if core.plain(d2) != pref:
                res.violation("perturbed-corpus-file-differs", case, core.first_diff(pref, core.plain(d2)), "same as original")
    include_directive_spellings(ctx, r)
    res.count("public_api_calls", eng.public_calls)
    res.count("evaluations", res.counters["renderings_judged"] + res.counters["corpus_perturbations"])


def include_directive_spellings(ctx, r):
    """INCLUDE is a keyword like any other: its letter case, the white space and the comments around it do not change what a document
    with a real included file loads to (the public loads, includes expanded)."""
    import shutil
    import tempfile

    import mappyfile

    res = ctx.res
    if ctx.shard != 0:
        return
    base = tempfile.mkdtemp(prefix="mf-c05-")
    try:
        inc = os.path.join(base, "part one.map")
        with open(inc, "w", encoding="utf-8") as f:
            f.write('CLASS\n  NAME "from the included file"\n  STYLE\n    SIZE 3\n  END\nEND\n')
        ref = None
        for kw in ["INCLUDE", "include", "Include", "iNCLUDE", "InClUdE", "includE", "INCLUDe", "inCLude"] + \
                ["".join(c.upper() if r.random() < 0.5 else c.lower() for c in "include") for _ in range(8)]:
            for lead, gap, tail in (("  ", " ", ""), ("\t", "\t", " # trailing"), ("", "  ", "\t"), (" \t ", " ", " # c")):
                for q in ('"', "'"):
                    text = f'LAYER\n  NAME "l"\n{lead}{kw}{gap}{q}{inc}{q}{tail}\n  TYPE POINT\nEND\n'
                    res.count("include_directive_spellings")
                    case = {"workload": "include-directive-spellings", "text": text}
                    try:
                        raw = mappyfile.loads(text)
                        d = core.plain(raw)
                    except Exception as ex:
                        res.violation("rendering-not-accepted", case, f"{type(ex).__name__}: {str(ex)[:200]}", "same as the upper-case spelling")
                        continue
                    if ref is None:
                        ref = d
                        if "classes" not in raw or "include" in raw:
                            res.violation("renderings-disagree", case, d, "the included CLASS in place of the directive")
                    elif d != ref:
                        res.violation("renderings-disagree", case, core.first_diff(ref, d), "same as the upper-case spelling")
    finally:
        shutil.rmtree(base, ignore_errors=True)


def replay(ctx, v):
    eng = Engine(public_every=0)
    case = v["case"]
    try:
        d = eng.loads(case["text"])
        print("loads ->", d)
        other = (v.get("expected") or {})
        other_text = other.get("other-rendering") or other.get("accepted-rendering") if isinstance(other, dict) else None
        if other_text:
            d0 = eng.loads(other_text)
            if core.plain(d0) != core.plain(d):
                ctx.res.violation("renderings-disagree", case, core.first_diff(core.plain(d0), core.plain(d)), other)
        elif case.get("file"):
            import os
            ref = eng.loads(open(os.path.join(core.REPO, case["file"]), encoding="utf-8").read())
            if core.plain(ref) != core.plain(d):
                ctx.res.violation("perturbed-corpus-file-differs", case, core.first_diff(core.plain(ref), core.plain(d)), None)
    except Exception as ex:
        ctx.res.violation(v["kind"], case, f"{type(ex).__name__}: {str(ex)[:300]}", v.get("expected"))
