"""C07 - validation verdict equals the schema's verdict.

Deciding monitors: (1) independent conformance verdict (mf/schemamodel.py: own loading, $ref inlining, lower-casing;
the jsonschema evaluator is the shared trusted base); (2) fault injection with known locations: the set of names in the
messages must equal the set of faulty keywords / objects; (3) metamorphic relations (key/value case, hidden keys,
list-vs-single); (4) icontract "returns a list of message dicts, never raises" on every Validator.validate call.
"""
from __future__ import annotations

import copy
import hashlib
import json

from .. import core, corpus, gen, render, schemamodel, valcheck, vocab
from ..engine import Engine
from ..mon import contracts

RULE = ("schema-valid generated documents of every root type (expect zero messages), then 1-2 faults injected at uniformly chosen "
        "objects (any depth / list index): enum violation, number out of range, wrong arity, wrong type, unknown keyword, missing "
        "required keyword - coverage-directed over (object type, fault kind); plus every loadable vocabulary / corpus / mutated "
        "document for the never-raises and verdict-equality clauses; distinct = distinct document text")
EVAL_KEY = "validate_calls_judged"
DISTINCT_KEY = "documents"
NSHARDS = {"quick": 8, "thorough": 16}
FLOORS = {"quick": {"valid_docs_zero_messages": 1200, "single_faults": 2500, "double_faults": 800, "verdict_comparisons": 5000,
                    "metamorphic_checks": 250, "validate_contract_evals": 6000, "distinct:object-x-fault": 60, "dict_api_faults": 500},
          "thorough": {"valid_docs_zero_messages": 5000, "single_faults": 30000, "double_faults": 11000, "verdict_comparisons": 60000,
                       "metamorphic_checks": 1400, "validate_contract_evals": 60000, "distinct:object-x-fault": 60, "dict_api_faults": 3000}}
ASSUMPTIONS = ["trusted base shared with mappyfile: the jsonschema Draft-4 evaluator and the schema files",
               "exclusiveMinimum written as a number has no effect under Draft 4 (as evaluated by both sides)"]
DOMAIN = gen.DOMAIN + ["faults are injected only where exactly one schema violation results by construction (enum-only keywords, "
                       "number-only keywords with effective bounds, 2- and 4-item number lists, number/boolean-only keywords)"]

VIOL = []
LIST_POOL = []  # roots (valid and faulty) of one type, validated as lists of several roots


class ContractBroken(Exception):
    pass


def post_validate(result):
    contracts.bump("validate")
    ok = isinstance(result, list) and all(isinstance(m, dict) and "error" in m and "message" in m for m in result)
    if not ok:
        VIOL.append(repr(result)[:300])
    return True


def attach():
    import icontract
    from mappyfile.validator import Validator

    if getattr(Validator, "_mf_c07", False):
        return
    Validator.validate = icontract.ensure(post_validate, error=ContractBroken)(Validator.validate)
    Validator._mf_c07 = True


def h(s):
    return hashlib.sha1(s.encode()).hexdigest()[:12]


def names(msgs):
    return sorted(m["message"].replace("ERROR: Invalid value in ", "") for m in msgs)


def safe_validate(res, eng, root, case, version=None, via_list=False):
    """validate must always return for a dictionary produced by loads / create."""
    try:
        t = str(root.get("__type__", "map")).lower() if isinstance(root, dict) else "map"
        arg = [root] if via_list else root
        msgs = eng.validator.validate(arg, schema_name=t, version=version)
    except ContractBroken:
        raise
    except Exception as ex:
        import traceback
        res.violation("validate-raises", case, f"{type(ex).__name__}: {str(ex)[:200]}", "a list of messages",
                      where="".join(traceback.format_exception(type(ex), ex, ex.__traceback__)[-2:])[-400:])
        return None
    if VIOL:
        res.violation("validate-result-malformed", case, VIOL[:2], None)
        VIOL.clear()
    res.count("validate_calls_judged")
    return msgs


def verdict(res, eng, root, case, msgs):
    """(1) independent conformance: verdict and number of errors agree."""
    t = str(root.get("__type__")).lower()
    if t not in vocab.object_types():
        return
    res.count("verdict_comparisons")
    mine = schemamodel.errors(root, t)
    if bool(msgs) != bool(mine):
        res.violation("verdict-differs-from-schema", case, {"messages": names(msgs)[:5]}, {"schema_errors": [e.message[:100] for e in mine[:5]]})
    elif len(msgs) != len(mine):
        res.violation("message-count-differs-from-schema-errors", case, len(msgs), len(mine))
    else:
        want = sorted(n for _, n, _ in schemamodel.error_targets(root, mine))
        if names(msgs) != want:
            res.violation("messages-name-other-things-than-the-schema-errors", case, names(msgs)[:8], want[:8])


def _flip(r, c):
    """Another letter case of ONE character, only where that is a pure case change (same string again after lower-casing: 'ß'.upper()
    is 'SS' and 'ŉ'.upper() is two characters - those are different strings, not other spellings of the same one)."""
    u = c.upper()
    if r.random() < 0.5 and len(u) == 1 and u.lower() == c.lower():
        return u
    l = c.lower()
    return l if len(l) == 1 and l.upper().lower() == l else c


def recase(r, d):
    """Plain-dict copy with random key / string-value case and extra hidden keys at every level."""
    if isinstance(d, dict):
        out = {}
        for k, v in d.items():
            kk = k if k.startswith("__") else "".join(_flip(r, c) for c in k)
            out[kk] = recase(r, v)
        if r.random() < 0.5:
            out["__" + r.choice(["extra", "note", "xyz"]) + "__"] = r.choice([1, "x", {"a": 1}, [1, 2]])
        return out
    if isinstance(d, (list, tuple)):
        return [recase(r, v) for v in d]
    if isinstance(d, str):
        return "".join(_flip(r, c) for c in d)
    return d


def leaf_paths(d, path=()):
    """Paths to every scalar leaf and every list (at any nesting depth) of a dictionary, hidden keys excluded."""
    out = []
    if isinstance(d, dict):
        for k, v in d.items():
            if isinstance(k, str) and k.startswith("__"):
                continue
            out += leaf_paths(v, path + (k,))
    elif isinstance(d, (list, tuple)):
        if path:
            out.append((path, "list"))
        for i, v in enumerate(d):
            out += leaf_paths(v, path + (i,))
    else:
        out.append((path, "scalar"))
    return out


def placeholder_fault(r, root):
    """Read a keyword the object does not have: on a dictionary from loads that leaves an empty dictionary of the library's own class
    behind (on a plain dict the same empty value is assigned).  It is in the dictionary, so the schema judges it."""
    objs = []

    def walk(d, path):
        if isinstance(d, dict):
            if d.get("__type__") in vocab.object_types():
                objs.append((path, d))
            for k, v in d.items():
                if not (isinstance(k, str) and k.startswith("__")):
                    walk(v, path + (k,))
        elif isinstance(d, list):
            for i, v in enumerate(d):
                walk(v, path + (i,))

    walk(root, ())
    if not objs:
        return None
    path, o = r.choice(objs)
    known = [k for k, p in vocab.props(o["__type__"]).items() if k not in o and not k.startswith("__") and "block" not in p.kinds()
             and k != "include"]
    key = r.choice(known) if known and r.random() < 0.7 else "nosuchkeyword"
    try:
        o[key]
    except KeyError:
        o[key] = type(o)()
    if key not in o:
        return None
    return {"path": [str(x) for x in path + (key,)], "old": "(missing)", "new": "empty dictionary left by reading the missing key: " + type(o[key]).__name__}


def dict_fault(r, root):
    """Edit a loaded dictionary through the dict API so that one value (at any depth / list index, also inside nested
    lists such as POINTS pairs) has the wrong type or arity.  Returns a description or None."""
    if r.random() < 0.2:
        return placeholder_fault(r, root)
    paths = leaf_paths(root)
    if not paths:
        return None
    path, kind = r.choice(paths)
    repeated = [(p_, k_) for p_, k_ in paths if k_ == "list" and p_ and p_[-1] in ("processing", "formatoption", "compfilter", "include", "points")]
    if repeated and r.random() < 0.3:
        # a faulty item APPENDED to a repeatable keyword after loading: its index lies beyond the occurrences the parser recorded
        path, kind = r.choice(repeated)
        cur = root
        for p_ in path[:-1]:
            cur = cur[p_]
        old = cur[path[-1]]
        if isinstance(old, list):
            old.append(r.choice([5, 2.5, True]))
            return {"path": [str(x) for x in path], "old": "(one item fewer)", "new": "a wrong-typed item appended: " + repr(old[-1])}
    cur = root
    for p_ in path[:-1]:
        cur = cur[p_]
    old = cur[path[-1]]
    if isinstance(cur, tuple):
        return None
    if kind == "list":
        new = list(old)[:-1] if old and r.random() < 0.5 else list(old) + [r.choice([7, "x"])]
    elif isinstance(old, bool):
        new = r.choice(["maybe", 7])
    elif isinstance(old, (int, float)):
        new = r.choice(["x", "not a number", True])
    else:
        new = r.choice([12345, 3.5, ["a", "b", "c", "d", "e"]])
    try:
        cur[path[-1]] = new
    except TypeError:
        return None
    return {"path": [str(x) for x in path], "old": repr(old)[:60], "new": repr(new)[:60]}


def run(ctx):
    import mappyfile

    attach()
    eng = Engine(public_every=0)
    res = ctx.res
    r = ctx.rng("c07")
    # ---- valid documents: zero messages; then faults
    nvalid = ctx.n(1600, 8000)
    types = list(vocab.object_types())
    uncovered = [(t, k) for t in types for k in ("enum", "range", "arity", "type", "unknown-keyword", "missing-required")]
    r.shuffle(uncovered)
    for j in range(nvalid):
        run_ = valcheck.make(r, eng, ctx.gated, root=types[(j + ctx.shard) % len(types)] if j % 2 else None)
        case = {"part": "valid", "text": run_.text[:4000]}
        if run_.error is not None:
            res.violation("generated-valid-document-not-accepted", case, f"{type(run_.error).__name__}: {str(run_.error)[:200]}", None)
            continue
        res.seen("documents", h(run_.text))
        msgs = safe_validate(res, eng, run_.root, case)
        if msgs is None:
            continue
        if msgs:
            res.violation("valid-document-gets-messages", case, [(m["message"], m["error"][:100]) for m in msgs[:4]], "zero messages")
        else:
            res.count("valid_docs_zero_messages")
            res.seen("valid-root-types", run_.root["__type__"])
        verdict(res, eng, run_.root, case, msgs)
        if j % 2 == 0:
            # faults injected through the dict API (any depth, any list index, also items of nested lists)
            rootc = copy.deepcopy(run_.root)
            rootc = json.loads(json.dumps(rootc)) if j % 4 == 0 else rootc
            df = dict_fault(r, rootc)
            if df:
                res.count("dict_api_faults")
                res.seen("dict-fault-depth", f"depth={min(len(df['path']), 6)} intail={sum(1 for x in reversed(df['path']) if x.isdigit())}")
                c2 = dict(case, part="dict-api-fault", fault=df)
                m2 = safe_validate(res, eng, rootc, c2)
                if m2 is not None:
                    verdict(res, eng, rootc, c2, m2)
        if j % 5 == 0:
            # (3) metamorphic: key/value case + hidden keys; list vs single
            res.count("metamorphic_checks")
            alt = recase(r, json.loads(json.dumps(run_.root)))
            m2 = safe_validate(res, eng, alt, dict(case, part="recased"))
            if m2 is not None and names(m2) != names(msgs):
                res.violation("verdict-depends-on-case-or-hidden-keys", dict(case, recased=json.dumps(alt)[:2000]), names(m2), names(msgs))
            m3 = safe_validate(res, eng, run_.root, dict(case, part="as-list"), via_list=True)
            if m3 is not None and names(m3) != names(msgs):
                res.violation("list-of-roots-judged-differently", case, names(m3), names(msgs))
            LIST_POOL.append(run_.root)
    nf = ctx.n(4000, 44000)
    nd = ctx.n(1200, 16000)
    for j in range(nf + nd):
        double = j >= nf
        want_kind = None
        root = None
        if uncovered and not double:
            root, want_kind = uncovered.pop()
        run_ = valcheck.make(r, eng, ctx.gated, nfaults=2 if double else 1, want_kind=want_kind, root=root)
        if not run_.faults or (double and len(run_.faults) < 2):
            res.count("fault_not_applicable")
            continue
        if run_.error is not None:
            res.violation("faulty-document-not-accepted-by-loads", {"part": "faults", "text": run_.text[:4000]},
                          f"{type(run_.error).__name__}: {str(run_.error)[:200]}", "faults are schema faults, not syntax errors")
            continue
        res.count("double_faults" if double else "single_faults")
        res.seen("documents", h(run_.text))
        for (kind, depth, inlist), f in zip(valcheck.fault_features(run_), run_.faults):
            res.count(f"fault:{kind}")
            res.seen("object-x-fault", f"{f['object'].type}:{kind}")
            res.seen("fault-kind-depth-list", f"{kind}@{min(depth, 4)}{'L' if inlist else ''}")
        case = {"part": "faults", "text": run_.text[:4000], "faults": [(f["kind"], f["object"].type, f["key"]) for f in run_.faults]}
        msgs = safe_validate(res, eng, run_.root, case)
        if msgs is None:
            continue
        verdict(res, eng, run_.root, case, msgs)
        got = set(names(msgs))
        want = {f["name"] for f in run_.faults}
        if got != want:
            res.violation("messages-do-not-name-exactly-the-faults", case, sorted(got), sorted(want))
        if len(res.samples) < 2 and len(run_.text) < 500:
            res.sample({"text": run_.text, "faults": case["faults"], "messages": [(m["message"], m["error"][:80]) for m in msgs]})
        LIST_POOL.append(run_.root)
        if j % 3 == 0 and len(LIST_POOL) >= 6:
            # a list of several root dictionaries (faulty ones in any position) == the roots taken one by one
            t0 = run_.root["__type__"]
            same = [x for x in LIST_POOL[-60:] if x.get("__type__") == t0]
            if len(same) >= 2:
                roots = r.sample(same, min(len(same), r.randint(2, 4)))
                r.shuffle(roots)
                try:
                    one_by_one = []
                    for x in roots:
                        one_by_one += eng.validator.validate(x, schema_name=t0)
                    as_list = eng.validator.validate(roots, schema_name=t0)
                    res.count("multi_root_lists")
                    if names(as_list) != names(one_by_one):
                        res.violation("list-of-roots-judged-differently", {"part": "multi-root-list", "n": len(roots), "type": t0},
                                      names(as_list), names(one_by_one))
                except ContractBroken:
                    raise
                except Exception as ex:
                    res.violation("validate-raises", {"part": "multi-root-list"}, f"{type(ex).__name__}: {str(ex)[:200]}", None)
    # ---- (4) never raises + verdict equality on everything loads accepts: vocabulary, corpus, mutated inputs, create()
    from . import C11
    for i, (o, k, ai) in enumerate(gen.vocab_slots()):
        if not ctx.mine(i):
            continue
        p = vocab.prop(o, k)
        a = p.alts[ai]
        if (o, k) in gen.UNWRITABLE or (a.kind == "block" and (o, k + ":block") in gen.UNWRITABLE):
            continue
        node, it = gen.vocab_doc(r, o, k, ai, "middle")
        gen.apply_gates(node, ctx.gated)
        text = render.render([node]).text
        try:
            d = eng.loads(text, include_position=True)
        except Exception as ex:
            res.count("vocab_doc_not_accepted(C02/C19 decide):" + type(ex).__name__)
            continue
        case = {"part": "vocab", "text": text}
        msgs = safe_validate(res, eng, d, case)
        if msgs is not None:
            verdict(res, eng, d, case, msgs)
        # numbers no double can hold (the grammar accepts the literal, float() makes it inf) and the largest / smallest finite ones
        if a.kind in ("number", "integer") and it.kind == "attr" and len(it.toks) == 1:
            for lit in ("1e999", "-1e999", "9" * 320 + ".0", "1.7976931348623157e308", "-1.7976931348623157e308", "5e-324", "-0.0"):
                it.toks = [gen.Tok("num", lit)]
                it.value = float(lit)
                text = render.render([node]).text
                try:
                    d = eng.loads(text, include_position=(len(lit) % 2 == 0))
                except Exception as ex:
                    res.count("extreme_number_doc_not_accepted:" + type(ex).__name__)
                    continue
                res.count("extreme_number_docs")
                case = {"part": "vocab-extreme-number", "text": text}
                for via_list in (False, True):
                    msgs = safe_validate(res, eng, d, case, via_list=via_list)
                    if msgs is not None and not via_list:
                        verdict(res, eng, d, case, msgs)
    seeds = []
    for path, text in corpus.texts(ctx):
        try:
            d = eng.loads(text, include_position=(r.random() < 0.5))
        except Exception:
            continue
        for root in (d if isinstance(d, list) else [d]):
            case = {"part": "corpus", "file": corpus.rel(path)}
            msgs = safe_validate(res, eng, root, case)
            if msgs is not None:
                verdict(res, eng, root, case, msgs)
        tk = C11.tokens_of(text)
        if tk and len(tk) < 1500:
            seeds.append(tk)
    for j in range(ctx.n(4000, 60000)):
        if not seeds:
            break
        text = C11.join(r, C11.mutate(r, r.choice(seeds), r.choice(seeds)))
        if "include" in text.lower():
            continue
        try:
            d = eng.loads(text, include_position=(j % 2 == 0))
        except Exception:
            res.count("mutated_rejected")
            continue
        res.count("mutated_accepted")
        for root in (d if isinstance(d, list) else [d]):
            if isinstance(root, dict) and root.get("__type__") in vocab.object_types():
                case = {"part": "mutated", "text": text[:3000]}
                msgs = safe_validate(res, eng, root, case, version=r.choice([None, None, 7.6]))
    if ctx.shard == 0:
        for t in vocab.object_types():
            for v in [None] + vocab.version_bounds():
                d = mappyfile.create(t, v)
                res.count("create_calls")
                safe_validate(res, eng, d, {"part": "create", "type": t, "version": v}, version=v)
    res.count("validate_contract_evals", contracts.EVALS.get("validate", 0))


def replay(ctx, v):
    attach()
    eng = Engine(public_every=0)
    case = v["case"]
    if "text" in case:
        d = eng.loads(case["text"], include_position=True)
        root = d[0] if isinstance(d, list) else d
        msgs = safe_validate(ctx.res, eng, root, case)
        print(msgs)
        if msgs is not None:
            verdict(ctx.res, eng, root, case, msgs)
            if case.get("faults"):
                want = {(f[2].upper() if f[0] not in ("unknown-keyword", "missing-required") else f[1].upper()) for f in case["faults"]}
                if set(names(msgs)) != want:
                    ctx.res.violation("messages-do-not-name-exactly-the-faults", case, names(msgs), sorted(want))
