"""C01 - parse -> pretty-print -> parse preserves Mapfile content.

Deciding monitor: relation over three recorded boundary events (parse, pprint, parse) with the independent
round-trip equivalence of mf/relations.py (allowed differences decided by the independent schema reader).
"""
from __future__ import annotations

import collections
import hashlib

from .. import core, corpus, gen, relations, render, vocab
from ..engine import Engine

RULE = ("every accepted document (vocabulary sweep of all (object, keyword, alternative) slots, random schema-generated documents, "
        "the .map corpus) is loaded, written with dumps under both quote characters and loaded again; the second dictionary must "
        "equal the first except enum letter case / number->numeric string where the independent schema reader allows it; "
        "distinct = distinct (source text, quote); non-trivial = document with at least one keyword")
EVAL_KEY = "roundtrips_judged"
DISTINCT_KEY = "roundtrips"
NSHARDS = {"quick": 8, "thorough": 16}
FLOORS = {"quick": {"roundtrips_judged": 4000, "corpus_roundtrips": 500, "distinct:slots": 380},
          "thorough": {"roundtrips_judged": 40000, "corpus_roundtrips": 500, "distinct:slots": 380}}
ASSUMPTIONS = ["allowed differences are decided with mf/vocab.py (own schema reader)",
               "documents with keywords unknown to the schema of their object are outside the quantifier (counted)"]
DOMAIN = gen.DOMAIN + ["documented exclusions are counted, not judged: strings containing the output quote character; strings of "
                       "expression-capable keywords that look like an expression/regex/list/binding; strings with a backslash"]


def h(s):
    return hashlib.sha1(s.encode()).hexdigest()[:12]


def judge(ctx, eng, text, label, allowed, slot=None, file=None):
    res = ctx.res
    try:
        d = eng.loads(text)
    except Exception:
        res.count("not_accepted_by_loads:" + label)
        return
    unk = relations.unknown_keywords(d)
    if unk:
        res.count("excluded:keyword-unknown-to-schema")
        return
    special = relations.special_looking_source_strings(text) if label == "corpus" else set()
    if special and relations.excluded_strings(d, special):
        res.count("excluded:special-looking-string")
        return
    if relations.has_backslash(d):
        res.count("excluded:backslash-in-string")
        return
    before = core.fp(d)
    for quote in ('"', "'"):
        if relations.contains_quote(d, quote):
            res.count("excluded:string-contains-output-quote")
            continue
        case = {"workload": label, "text": text if len(text) < 30000 else text[:30000], "quote": quote, "slot": slot, "file": file}
        res.count("roundtrips_judged")
        res.count("roundtrips:" + label)
        if label == "corpus":
            res.count("corpus_roundtrips")
        res.seen("roundtrips", h(text + quote))
        try:
            t1 = eng.dumps(d, quote=quote)
        except Exception as ex:
            res.violation("dumps-raises", case, f"{type(ex).__name__}: {str(ex)[:300]}", "text")
            continue
        if core.fp(d) != before:
            res.violation("dumps-modified-its-argument", case, None, None)
            before = core.fp(d)
        try:
            d2 = eng.loads(t1)
        except Exception as ex:
            res.violation("written-text-not-accepted", dict(case, written=t1[:3000]), f"{type(ex).__name__}: {str(ex)[:300]}",
                          "accepted by loads")
            continue
        diff = relations.roundtrip_equiv(d, d2, allowed)
        if diff:
            res.violation("content-changed", dict(case, written=t1[:3000]), diff, None)


def run(ctx):
    eng = Engine(public_every=50)
    res = ctx.res
    r = ctx.rng("c01")
    allowed = collections.Counter()
    gopts = gen.GenOpts(gated=ctx.gated)
    surf = [render.CANONICAL, render.Surface(kwcase="lower", bare=0.7, quote="random")]
    # ---- W-vocab
    for i, (o, k, ai) in enumerate(gen.vocab_slots()):
        if not ctx.mine(i):
            continue
        p = vocab.prop(o, k)
        a = p.alts[ai]
        if (o, k) in gen.UNWRITABLE or (a.kind == "block" and (o, k + ":block") in gen.UNWRITABLE):
            continue
        for pos in ("only", "first", "last"):
            node, it = gen.vocab_doc(r, o, k, ai, pos)
            gen.apply_gates(node, ctx.gated)
            res.seen("slots", f"{o}.{k}:{a.kind}")
            judge(ctx, eng, render.render([node], r.choice(surf), r).text, "vocab", allowed, slot=f"{o}.{k}:{a.kind}:{pos}")
        if a.kind == "enum":
            for m in a.info["members"]:
                for case in ("upper", "lower"):
                    node, it = gen.vocab_doc(r, o, k, ai, "middle", member=m, enum_case=case)
                    gen.apply_gates(node, ctx.gated)
                    judge(ctx, eng, render.render([node]).text, "vocab-enum", allowed, slot=f"{o}.{k}:enum:{m}")
    # ---- corpus
    for path, text in corpus.texts(ctx):
        judge(ctx, eng, text, "corpus", allowed, file=corpus.rel(path))
    # ---- W-gen
    n = ctx.n(800, 30000)
    for j in range(n):
        opts = gen.GenOpts(gated=ctx.gated, p_key=r.choice([0.15, 0.3, 0.5]), dup=0.03)
        nodes = gen.gen_document(r, opts)
        s = render.surfaces(r, 1)[0] if r.random() < 0.5 else render.CANONICAL
        text = render.render(nodes, s, r).text
        judge(ctx, eng, text, "gen", allowed)
        if len(res.samples) < 2 and j > 5 and len(text) < 700:
            res.sample({"text": text, "written": eng.dumps(eng.loads(text))})
    for k, v in allowed.items():
        res.count("allowed-difference:" + k, v)
    res.count("public_api_calls", eng.public_calls)


def replay(ctx, v):
    import collections as c

    eng = Engine(public_every=0)
    case = v["case"]
    text = case["text"]
    if case.get("file"):
        import os
        text = open(os.path.join(core.REPO, case["file"]), encoding="utf-8").read()
    d = eng.loads(text)
    t1 = eng.dumps(d, quote=case["quote"])
    print(t1)
    try:
        d2 = eng.loads(t1)
    except Exception as ex:
        ctx.res.violation("written-text-not-accepted", case, f"{type(ex).__name__}: {str(ex)[:300]}", None)
        return
    diff = relations.roundtrip_equiv(d, d2, c.Counter())
    if diff:
        ctx.res.violation("content-changed", case, diff, None)
