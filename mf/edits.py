"""Edit histories over Mapfile dictionaries through the dict API (C03 / C12 / C16 workloads).

An edit history is a list of JSON-able operation descriptors applied to a start dictionary; applying is
deterministic given the descriptor list, so a violation can be replayed.
"""
from __future__ import annotations

import copy

from . import expect, gen, render, vocab


def objects(d, path=()):
    """(path, object dict) for every typed block in the tree."""
    if isinstance(d, list):
        for i, x in enumerate(d):
            yield from objects(x, path + (i,))
        return
    if not isinstance(d, dict) or "__type__" not in d:
        return
    if d["__type__"] in vocab.object_types():
        yield path, d
    for k, v in list(d.items()):
        if isinstance(v, dict) and "__type__" in v:
            yield from objects(v, path + (k,))
        elif isinstance(v, list) and v and isinstance(v[0], dict):
            yield from objects(v, path + (k,))


def resolve(d, path):
    cur = d
    for p in path:
        cur = cur[p]
    return cur


def mkdict():
    from mappyfile.ordereddict import CaseInsensitiveOrderedDict as CI

    return CI(CI)


def random_value(r, typ, gated=()):
    """(key, value, kind) - a schema-shaped value of a random alternative of a random keyword of object type typ."""
    ps = [p for k, p in vocab.props(typ).items() if not k.startswith("__") and k != "include" and gen.writable_alts(p)]
    p = r.choice(ps)
    a = r.choice(gen.writable_alts(p))
    it = gen.make_item(p, a, r)
    v = expect.item_value(it, mkdict)
    if it.kind == "repeat":
        v = [v] + ([expect.item_value(gen.make_item(p, a, r), mkdict)] if r.random() < 0.4 else [])
    return p.key, v, a.kind


def gen_history(r, start, n_ops, gated=(), allow_missing_reads=True):
    """Generate and apply up to n_ops operations on `start` (mutated in place). Returns (root, ops, features)."""
    import mappyfile

    ops = []
    feats = set()
    root = start
    for _ in range(n_ops):
        objs = list(objects(root))
        if not objs:
            break
        path, o = r.choice(objs)
        typ = o["__type__"]
        x = r.random()
        try:
            if x < 0.30:
                key, val, kind = random_value(r, typ)
                o[r.choice([key, key.upper()])] = val
                ops.append(["set", list(path), key, kind])
                feats.add("set:" + kind)
            elif x < 0.40:
                ks = [k for k in o.keys() if not k.startswith("__")]
                if ks:
                    k = r.choice(ks)
                    del o[r.choice([k, k.upper()])]
                    ops.append(["del", list(path), k])
                    feats.add("del")
            elif x < 0.58:
                slots = [(k, c) for k, (c, m) in vocab.child_slots(typ).items() if m == "list"]
                if slots:
                    k, child = r.choice(slots)
                    lst = o[k]  # auto-creates [] on a Mapfile dict
                    y = r.random()
                    if y < 0.5 or not lst:
                        c = expect.build_node(gen.gen_node(r, child, gen.GenOpts(gated=set(gated), max_depth=2, max_objects=4)), mkdict)
                        lst.insert(r.randint(0, len(lst)), c)
                        feats.add("child-insert")
                        ops.append(["child-insert", list(path), k])
                    elif y < 0.6:
                        # the SAME object a second time (a parsed STYLE appended to several classes, layers.insert(0, layers[0])):
                        # it is printed wherever it is referenced
                        lst.insert(r.randint(0, len(lst)), r.choice(lst))
                        feats.add("child-shared-reference")
                        ops.append(["child-shared-reference", list(path), k])
                    elif y < 0.7:
                        lst.pop(r.randrange(len(lst)))
                        feats.add("child-remove")
                        ops.append(["child-remove", list(path), k])
                    elif y < 0.85:
                        lst.reverse()
                        feats.add("child-reorder")
                        ops.append(["child-reorder", list(path), k])
                    else:
                        i, j = r.randrange(len(lst)), r.randrange(len(lst))
                        lst[i], lst[j] = lst[j], lst[i]
                        feats.add("child-swap")
                        ops.append(["child-swap", list(path), k])
            elif x < 0.68:
                # mappyfile.update with a patch speaking about existing and new keywords
                patch = {}
                for _ in range(r.randint(1, 3)):
                    key, val, kind = random_value(r, typ)
                    if not isinstance(val, (dict, list)) or kind in ("numlist", "repeat"):
                        patch[key] = val
                ks = [k for k in o.keys() if not k.startswith("__") and not isinstance(o[k], (dict, list))]
                if ks and r.random() < 0.3:
                    patch[r.choice(ks)] = "__delete__"
                if r.random() < 0.15:
                    # a dict patch for a block the object does not have: update() creates a plain dict without __type__
                    missing = [k for k, (c, m) in vocab.child_slots(typ).items() if m == "single" and k not in o]
                    if missing:
                        patch[r.choice(missing)] = {"status": "ON"}
                        feats.add("update-creates-typeless-dict")
                mappyfile.update(o, patch)
                ops.append(["update", list(path), sorted(patch)])
                feats.add("update")
            elif x < 0.76:
                # assignment of an object parsed from a snippet
                slots = list(vocab.child_slots(typ).items())
                if slots:
                    k, (child, mode) = r.choice(slots)
                    if (typ, k + ":block") in gen.UNWRITABLE:
                        continue
                    node = gen.gen_node(r, child, gen.GenOpts(gated=set(gated), max_depth=2, max_objects=3))
                    stext = render.render([node]).text
                    try:
                        snippet = mappyfile.loads(stext)
                    except Exception as ex:
                        ops.append(["snippet-not-loadable", stext, type(ex).__name__])
                        feats.add("snippet-not-loadable")
                        continue
                    if mode == "list":
                        lst = o[k]
                        if lst and r.random() < 0.5:
                            lst[r.randrange(len(lst))] = snippet
                        else:
                            lst.append(snippet)
                    else:
                        o[k] = snippet
                    ops.append(["assign-snippet", list(path), k])
                    feats.add("assign-snippet")
            elif x < 0.84 and allow_missing_reads:
                y = r.random()
                if y < 0.4:
                    absent = [k for k, p in vocab.props(typ).items() if k not in o and not k.startswith("__")
                              and k not in vocab.object_list_keys()]
                    if absent:
                        k = r.choice(absent)
                        created = o[k]  # auto-creates an empty dict on a Mapfile dict
                        ops.append(["read-missing", list(path), k])
                        feats.add("read-missing-scalar-or-block")
                        if isinstance(created, dict) and r.random() < 0.5:
                            # ... and a keyword is then set on the auto-created (typeless) dict, e.g. d["legend"]["status"] = "ON"
                            created[r.choice(["status", "name", "template"])] = r.choice(["ON", "x", 5])
                            ops.append(["set-on-auto-created", list(path), k])
                            feats.add("read-missing-then-set")
                elif y < 0.5:
                    # reading a missing key INSIDE a key-value block (d["metadata"]["wms_title"] on a block that lacks it)
                    kvs = [k for k, v in o.items() if isinstance(v, dict) and (k == "config" or k in vocab.kv_keys())]
                    if kvs:
                        k = r.choice(kvs)
                        try:
                            _ = o[k][r.choice(["wms_title", "zz", "ows_enable_request"])]
                        except KeyError:
                            pass
                        ops.append(["read-missing-inside-key-value-block", list(path), k])
                        feats.add("read-missing-inside-key-value-block")
                elif y < 0.7:
                    lk = [k for k, (c, m) in vocab.child_slots(typ).items() if m == "list" and k not in o]
                    if lk:
                        k = r.choice(lk)
                        _ = o[k]
                        ops.append(["read-missing-list", list(path), k])
                        feats.add("read-missing-list")
                else:
                    try:
                        _ = o["web"]["metadata"]["wms_title"]
                    except Exception:
                        pass
                    ops.append(["read-missing-chain", list(path)])
                    feats.add("read-missing-chain")
            elif x < 0.92:
                lk = [k for k, (c, m) in vocab.child_slots(typ).items() if m == "list" and k in o and o[k]]
                if lk:
                    k = r.choice(lk)
                    if r.random() < 0.5:
                        mappyfile.find(o[k], "name", "zzz")
                    else:
                        mappyfile.findall(o[k], "group", ["zzz", "a"])
                    ops.append(["find", list(path), k])
                    feats.add("find-on-list")
            else:
                _ = o.get("nokey"), ("nokey" in o)
                ops.append(["get-missing", list(path)])
                feats.add("get-missing")
        except (KeyError, TypeError, IndexError, AttributeError) as ex:
            ops.append(["op-raised", type(ex).__name__])
    return root, ops, feats
