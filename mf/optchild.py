"""Child process of C03's interpreter-option phase: prints recorded dictionaries in an interpreter started with -O / -OO (assert
statements and docstrings compiled away) and reports, per case, the text or the exception type.  Runs without contracts (icontract
switches itself off when __debug__ is false); the parent compares each outcome with what the judged default-mode call gave.

usage: python -O -m mf.optchild CASES.json OUT.json
"""
from __future__ import annotations

import json
import os
import sys


def main():
    from mf import core

    if core.REPO not in sys.path[:1]:
        sys.path.insert(0, core.REPO)
    import logging

    import mappyfile

    logging.getLogger("mappyfile").propagate = False
    here = os.path.realpath(mappyfile.__file__)
    with open(sys.argv[1], encoding="utf-8") as f:
        cases = json.load(f)
    out = {"debug": __debug__, "optimize": sys.flags.optimize, "mappyfile": here, "outcomes": []}
    for c in cases:
        try:
            d = core.decanon(c["dict"])
            out["outcomes"].append({"text": mappyfile.dumps(d, **c["options"])})
        except Exception as ex:  # the outcome IS the observation
            out["outcomes"].append({"raised": type(ex).__name__})
    with open(sys.argv[2], "w", encoding="utf-8") as f:
        json.dump(out, f)


if __name__ == "__main__":
    main()
