"""W-corpus: the .map files shipped under /repo/tests and /repo/docs, read from the working tree at run time."""
from __future__ import annotations

import functools
import glob
import os

from . import core


@functools.lru_cache(None)
def files():
    out = []
    for base in ("tests", "docs"):
        out += glob.glob(os.path.join(core.REPO, base, "**", "*.map"), recursive=True)
    return tuple(sorted(set(out)))


def read(path):
    try:
        with open(path, encoding="utf-8") as f:
            return f.read()
    except (UnicodeDecodeError, OSError):
        return None


def texts(ctx=None):
    """(path, text) of every corpus file this shard owns."""
    for i, f in enumerate(files()):
        if ctx is not None and not ctx.mine(i):
            continue
        t = read(f)
        if t is not None:
            yield f, t


def rel(path):
    return os.path.relpath(path, core.REPO)
