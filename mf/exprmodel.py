"""Independent model of MapServer expressions for property C10.

 * tree generator / enumerator and renderer (source text with random spellings and parentheses)
 * tokenizer + precedence parser for the *stored* (normalised) string, using the property's table:
       OR < AND < NOT < comparison < + - < * / % ^  < unary minus ; binary operators left-associative;
       parentheses only group.
Trees are tuples:
   ("or", l, r) ("and", l, r) ("not", x) ("cmp", op, l, r) ("bin", op, l, r) ("neg", x) ("grp", x)
   ("leaf", kind, text)  kind in bind|int|float|dq|sq|bq|regex|list|word     ("call", name, [args])
"""
from __future__ import annotations

import re

CMP_SYMS = [">=", "<=", "=*", "==", "!=", "~*", "=", "<", ">", "~"]
CMP_WORDS = ["IN", "NE", "EQ", "LE", "LT", "GE", "GT", "LIKE"]
BIN_OPS = ["+", "-", "*", "/", "%", "^"]
LEVEL = {"or": 1, "and": 2, "not": 3, "cmp": 4, "+": 5, "-": 5, "*": 6, "/": 6, "%": 6, "^": 6, "neg": 7}


def prec(t):
    k = t[0]
    if k == "bin":
        return LEVEL[t[1]]
    return LEVEL.get(k, 9)


# ------------------------------------------------------------------------------------------------
# tokenizer for stored strings (and for source strings: same lexical classes)

TOKEN_RE = re.compile(
    r"""
    (?P<ws>\s+)
  | (?P<dq>"(?:\\"|[^"])*"i?)
  | (?P<sq>'(?:\\'|[^'])*'i?)
  | (?P<bq>`[^`]*`i?)
  | (?P<bind>\[[^\]\s]*\])
  | (?P<list>\{[^}]*\})
  | (?P<num>\d+\.\d*(?:[eE][+-]?\d+)?|\.\d+|\d+)
  | (?P<op>>=|<=|=\*|==|!=|~\*|&&|\|\||=|<|>|~|!|\+|-|\*|/|%|\^)
  | (?P<lp>\()
  | (?P<rp>\))
  | (?P<comma>,)
  | (?P<word>[A-Za-z_][A-Za-z0-9_]*)
    """,
    re.X,
)


class ExprSyntaxError(Exception):
    pass


def tokenize(s, allow_regex=True):
    out = []
    i = 0
    while i < len(s):
        # a regex literal can only start where an operand is expected
        if allow_regex and s[i] == "/" and _operand_expected(out):
            j = s.find("/", i + 1)
            if j > 0:
                k = j + 1
                if k < len(s) and s[k] == "i" and (k + 1 == len(s) or not s[k + 1].isalnum()):
                    k += 1
                out.append(("regex", s[i:k]))
                i = k
                continue
        m = TOKEN_RE.match(s, i)
        if not m:
            raise ExprSyntaxError(f"cannot tokenize at {i}: {s[i:i+20]!r}")
        kind = m.lastgroup
        if kind != "ws":
            out.append((kind, m.group()))
        i = m.end()
    return out


def _operand_expected(out):
    if not out:
        return True
    k, v = out[-1]
    if k in ("op", "lp", "comma"):
        return True
    if k == "word" and v.upper() in CMP_WORDS + ["AND", "OR", "NOT"]:
        return True
    return False


class P:
    def __init__(self, toks):
        self.t = toks
        self.i = 0

    def peek(self):
        return self.t[self.i] if self.i < len(self.t) else ("eof", "")

    def next(self):
        tok = self.peek()
        self.i += 1
        return tok

    def is_word(self, *words):
        k, v = self.peek()
        return k == "word" and v.upper() in words

    def is_op(self, *ops):
        k, v = self.peek()
        return k == "op" and v in ops

    def parse_or(self):
        left = self.parse_and()
        while self.is_word("OR") or self.is_op("||"):
            self.next()
            left = ("or", left, self.parse_and())
        return left

    def parse_and(self):
        left = self.parse_not()
        while self.is_word("AND") or self.is_op("&&"):
            self.next()
            left = ("and", left, self.parse_not())
        return left

    def parse_not(self):
        if self.is_word("NOT") or self.is_op("!"):
            self.next()
            return ("not", self.parse_not())
        return self.parse_cmp()

    def parse_cmp(self):
        left = self.parse_sum()
        while True:
            k, v = self.peek()
            if (k == "op" and v in CMP_SYMS) or (k == "word" and v.upper() in CMP_WORDS):
                self.next()
                left = ("cmp", v, left, self.parse_sum())
            else:
                return left

    def parse_sum(self):
        left = self.parse_prod()
        while self.is_op("+", "-"):
            op = self.next()[1]
            left = ("bin", op, left, self.parse_prod())
        return left

    def parse_prod(self):
        left = self.parse_unary()
        while self.is_op("*", "/", "%", "^"):
            op = self.next()[1]
            left = ("bin", op, left, self.parse_unary())
        return left

    def parse_unary(self):
        if self.is_op("-"):
            self.next()
            return ("neg", self.parse_unary())
        if self.is_op("+"):
            self.next()
            return self.parse_unary()
        return self.parse_atom()

    def parse_atom(self):
        k, v = self.next()
        if k == "lp":
            inner = self.parse_or()
            if self.next()[0] != "rp":
                raise ExprSyntaxError("missing )")
            return ("grp", inner)
        if k == "word":
            if v.upper() == "NOT":  # NOT in operand position (the grammar allows it as a value)
                return ("not", self.parse_not())
            if self.peek()[0] == "lp":
                self.next()
                args = []
                if self.peek()[0] != "rp":
                    args.append(self.parse_or())
                    while self.peek()[0] == "comma":
                        self.next()
                        args.append(self.parse_or())
                if self.next()[0] != "rp":
                    raise ExprSyntaxError("missing ) after call")
                return ("call", v, args)
            return ("leaf", "word", v)
        if k == "num":
            return ("leaf", "float" if ("." in v or "e" in v.lower()) else "int", v)
        if k in ("dq", "sq", "bq", "bind", "regex", "list"):
            return ("leaf", k, v)
        raise ExprSyntaxError(f"unexpected token {k} {v!r}")


def parse(s):
    p = P(tokenize(s))
    t = p.parse_or()
    if p.peek()[0] != "eof":
        raise ExprSyntaxError(f"trailing tokens from {p.peek()}")
    return t


def erase(t):
    """Remove grouping nodes, normalise && || ! spellings (already structural), numbers by value."""
    k = t[0]
    if k == "grp":
        return erase(t[1])
    if k in ("or", "and"):
        return (k, erase(t[1]), erase(t[2]))
    if k == "not":
        return ("not", erase(t[1]))
    if k == "cmp":
        return ("cmp", t[1], erase(t[2]), erase(t[3]))
    if k == "bin":
        return ("bin", t[1], erase(t[2]), erase(t[3]))
    if k == "neg":
        x = erase(t[1])
        if x[0] == "leaf" and x[1] == "num":  # -5 is one signed-number token for the lexer: same operand value
            return ("leaf", "num", -x[2])
        return ("neg", x)
    if k == "call":
        return ("call", t[1], tuple(erase(a) for a in t[2]))
    if k == "leaf":
        if t[1] == "int":
            return ("leaf", "num", float(int(t[2])))
        if t[1] == "float":
            return ("leaf", "num", float(t[2]))
        return t
    raise ValueError(t)


# ------------------------------------------------------------------------------------------------
# rendering an intended tree as source text


def spell(r, t):
    k = t[0]
    if k == "or":
        return r.choice(["OR", "or", "Or", "||"])
    if k == "and":
        return r.choice(["AND", "and", "And", "&&"])
    if k == "not":
        return r.choice(["NOT", "not", "Not", "!"])
    raise ValueError


def rand_case(r, w):
    return r.choice([w, w.lower(), w.title()])


def render(t, r, redundant=0.0, parent=None, side=None):
    """Source text for tree t: minimal parentheses under the property's table + random redundant ones."""
    k = t[0]
    if k == "leaf":
        s = t[2]
    elif k == "call":
        s = t[1] + "(" + ",".join(render(a, r, 0.0) for a in t[2]) + ")"
    elif k == "grp":
        s = "(" + render(t[1], r, redundant) + ")"
    elif k == "neg":
        inner = t[1]
        x = render(inner, r, redundant, t, "u")
        if prec(inner) < LEVEL["neg"] or inner[0] == "neg":
            x = "(" + x + ")"
        s = "-" + x
    elif k == "not":
        inner = t[1]
        x = render(inner, r, redundant, t, "u")
        if prec(inner) < LEVEL["not"]:
            x = "(" + x + ")"
        sp = spell(r, t)
        s = sp + ("" if (sp == "!" and r.random() < 0.5) or x.startswith("(") and r.random() < 0.3 else " ") + x
    else:
        if k in ("or", "and"):
            op, lt, rt = spell(r, t), t[1], t[2]
        elif k == "cmp":
            op, lt, rt = t[1], t[2], t[3]
        else:
            op, lt, rt = t[1], t[2], t[3]
        lv = prec(t)
        ls = render(lt, r, redundant, t, "l")
        rs = render(rt, r, redundant, t, "r")
        if prec(lt) < lv:
            ls = "(" + ls + ")"
        if prec(rt) <= lv:
            rs = "(" + rs + ")"
        s = f"{ls} {op} {rs}"
    if redundant and k not in ("leaf",) and r.random() < redundant:
        s = "(" + s + ")"
    elif redundant and k == "leaf" and t[1] in ("bind", "int", "float", "dq", "sq") and r.random() < redundant / 3:
        s = "(" + s + ")"
    return s


# ------------------------------------------------------------------------------------------------
# tree generation

LEAF_POOL = [("bind", "[a]"), ("bind", "[b_1]"), ("bind", "[NAME]"), ("int", "1"), ("int", "20"), ("float", "2.5"),
             ("float", "0.25"), ("dq", '"s"'), ("dq", '"a b"'), ("sq", "'s'"), ("sq", "'x y'")]
LEAF_POOL2 = LEAF_POOL + [("bq", "`2020-01-01`"), ("dq", '"it\'s"'), ("sq", "'say \"hi\"'"), ("int", "0"), ("float", "100.5"),
                          ("dq", '"(a)"'), ("dq", '"a)"'), ("sq", "'(b'"), ("sq", "'5" + '"' + "'"), ("dq", '"6' + "'" + '"'),
                          ("dq", '"O' + "'" + 'Brien"'),
                          # white space inside literals is content (runs of blanks, tabs, line breaks, Unicode separators)
                          ("sq", "'New  York'"), ("dq", '"tab\there"'), ("dq", '"1 Main St\n  Springfield"'), ("sq", "'a \u2028 b'"),
                          ("dq", '" lead and trail "'),
                          # back-quoted (date / time) literals are opaque too: quotes and parentheses inside them are text
                          ("bq", "`O'Brien`"), ("bq", "`2010-01-01 (UTC`"), ("bq", '`say "hi`'), ("bq", "`a)`"),
                          # operands that merely CONTAIN a word the transformer treats specially elsewhere (booleans, keywords, operators)
                          ("dq", '"True"'), ("sq", "'False'"), ("bind", "[isTrue]"), ("bq", "`False`"), ("dq", '"IsTrue or False"'),
                          ("sq", "'a AND b'"), ("dq", '"x OR y"'), ("dq", '"NOT z"'), ("bind", "[ORDER]"), ("bind", "[band]"), ("sq", "'a && b || !c'"),
                          ("dq", '"END"'), ("sq", "'LAYER'"), ("dq", '"eq"'), ("sq", "'IN'"),
                          # a string that looks like a colour
                          ("dq", '"#ff0000"'), ("sq", "'#ABC'")]
FUNCS = ["tostring", "round", "length", "upper", "area", "fromtext", "commify"]


def rand_leaf(r, rich=False):
    if rich and r.random() < 0.12:
        name = r.choice(FUNCS)
        n = r.choice([1, 1, 2, 3])
        args = [("leaf",) + r.choice(LEAF_POOL[:9]) for _ in range(n)]
        if r.random() < 0.35:
            # a computed parameter or a nested call: the grammar takes it only inside its own parentheses - upper((lower([name])))
            i = r.randrange(n)
            inner = ("call", r.choice(FUNCS), [("leaf",) + r.choice(LEAF_POOL[:9])]) if r.random() < 0.5 else \
                ("bin", r.choice(["+", "-", "*"]), ("leaf",) + r.choice(LEAF_POOL[:7]), ("leaf",) + r.choice(LEAF_POOL[:7]))
            args[i] = ("grp", inner)
        return ("call", name, args)
    return ("leaf",) + r.choice(LEAF_POOL2 if rich else LEAF_POOL)


def rand_cmp(r):
    if r.random() < 0.45:
        return rand_case(r, r.choice(CMP_WORDS))
    return r.choice(CMP_SYMS)


KINDS = ["or", "and", "not", "cmp", "+", "-", "*", "/", "%", "^", "neg"]


def rand_tree(r, nops, rich=False, not_ok=True):
    """Random tree with exactly nops operators.  NOT only appears at the top or under OR/AND/NOT."""
    if nops == 0:
        return rand_leaf(r, rich)
    kinds = KINDS if not_ok else [k for k in KINDS if k != "not"]
    k = r.choice(kinds)
    if k == "not":
        return ("not", rand_tree(r, nops - 1, rich, True))
    if k == "neg":
        return ("neg", rand_tree(r, nops - 1, rich, False))
    nl = r.randint(0, nops - 1)
    child_not = k in ("or", "and")
    lt = rand_tree(r, nl, rich, child_not)
    rt = rand_tree(r, nops - 1 - nl, rich, child_not)
    if k in ("or", "and"):
        return (k, lt, rt)
    if k == "cmp":
        return ("cmp", rand_cmp(r), lt, rt)
    return ("bin", k, lt, rt)


def enum_shapes(nops, not_ok=True):
    """All operator structures with exactly nops operators (leaves are None placeholders)."""
    if nops == 0:
        yield None
        return
    for k in KINDS:
        if k == "not":
            if not_ok:
                for c in enum_shapes(nops - 1, True):
                    yield ("not", c)
        elif k == "neg":
            for c in enum_shapes(nops - 1, False):
                yield ("neg", c)
        else:
            child_not = k in ("or", "and")
            for nl in range(nops):
                for lt in enum_shapes(nl, child_not):
                    for rt in enum_shapes(nops - 1 - nl, child_not):
                        if k in ("or", "and"):
                            yield (k, lt, rt)
                        elif k == "cmp":
                            yield ("cmp", None, lt, rt)
                        else:
                            yield ("bin", k, lt, rt)


def fill(shape, r, rich=False):
    if shape is None:
        return rand_leaf(r, rich)
    k = shape[0]
    if k in ("not", "neg"):
        return (k, fill(shape[1], r, rich))
    if k in ("or", "and"):
        return (k, fill(shape[1], r, rich), fill(shape[2], r, rich))
    if k == "cmp":
        return ("cmp", rand_cmp(r), fill(shape[2], r, rich), fill(shape[3], r, rich))
    return ("bin", shape[1], fill(shape[2], r, rich), fill(shape[3], r, rich))


def opkind(t):
    return t[1] if t[0] == "bin" else t[0]


def adjacencies(t, out):
    """(parent operator, child operator, side) pairs of a tree - the unit at which a precedence slip shows."""
    k = t[0]
    if k in ("leaf", "call"):
        return
    if k == "grp":
        adjacencies(t[1], out)
        return
    kids = []
    if k in ("not", "neg"):
        kids = [("u", t[1])]
    elif k in ("or", "and"):
        kids = [("l", t[1]), ("r", t[2])]
    else:
        kids = [("l", t[2]), ("r", t[3])]
    for side, c in kids:
        if c[0] not in ("leaf", "call"):
            out.add(f"{opkind(t)}>{opkind(c)}:{side}")
        adjacencies(c, out)


def count_ops(t):
    k = t[0]
    if k in ("leaf", "call"):
        return 0
    if k == "grp":
        return count_ops(t[1])
    if k in ("not", "neg"):
        return 1 + count_ops(t[1])
    if k in ("or", "and"):
        return 1 + count_ops(t[1]) + count_ops(t[2])
    return 1 + count_ops(t[2]) + count_ops(t[3])


def unsafe_mod(t, parent=None, side=None):
    """True when the tree contains a % whose written context the grammar (where % sits at comparison level)
    groups differently from the property's table: % under an arithmetic operator or unary minus, % as the right
    operand of a comparison, or % with an arithmetic right operand ... (mechanism of known finding C10/mod-level)."""
    k = t[0]
    if k in ("leaf", "call"):
        return False
    if k == "bin" and t[1] == "%":
        if parent is not None:
            pk = opkind(parent)
            if pk in ("+", "-", "*", "/", "^", "%", "neg"):
                return True
            if pk == "cmp" and side == "r":
                return True
    kids = []
    if k in ("not", "neg"):
        kids = [("u", t[1])]
    elif k in ("or", "and"):
        kids = [("l", t[1]), ("r", t[2])]
    else:
        kids = [("l", t[2]), ("r", t[3])]
    return any(unsafe_mod(c, t, s) for s, c in kids)


def has_mod(t):
    k = t[0]
    if k in ("leaf", "call"):
        return False
    if k == "bin" and t[1] == "%":
        return True
    if k in ("not", "neg", "grp"):
        return has_mod(t[1])
    if k in ("or", "and"):
        return has_mod(t[1]) or has_mod(t[2])
    return has_mod(t[2]) or has_mod(t[3])
