"""Fault injection with known locations (C07 / C08): a schema-valid IR gets 1-2 faults at uniformly chosen objects."""
from __future__ import annotations

from . import gen, vocab

KINDS = ["enum", "range", "arity", "type", "unknown-keyword", "missing-required"]


def candidates(node):
    """Fault kinds applicable to an object node, with the properties they can use."""
    out = {}
    ps = vocab.props(node.type)
    for key, p in ps.items():
        if key.startswith("__") or key == "include" or (node.type, key) in gen.UNWRITABLE:
            continue
        kinds = p.kinds() - {"hidden"}
        if kinds == {"enum"} and all(isinstance(m, str) for a in p.alts for m in a.info["members"]) and (node.type, key) not in gen.QUOTED_ENUM:
            out.setdefault("enum", []).append(p)
        if kinds <= {"number", "integer"} and any("minimum" in a.node or "maximum" in a.node for a in p.alts):
            out.setdefault("range", []).append(p)
        if kinds == {"numlist"} and p.alts[0].info["n"] in ((2, 2), (4, 4)):
            out.setdefault("arity", []).append(p)
        if kinds <= {"number", "integer"} or kinds == {"boolean"}:
            out.setdefault("type", []).append(p)
    out["unknown-keyword"] = [None]
    if vocab.required(node.type):
        out["missing-required"] = [None]
    return out


def inject(r, nodes, nfaults=1, want_kind=None):
    """Mutates the IR.  Returns a list of faults: dict(kind, object=Node, key, names=expected message name, item)."""
    objs = [n for root in nodes for n in root.walk()]
    faults = []
    used = set()
    for _ in range(nfaults):
        for _try in range(30):
            node = r.choice(objs)
            cands = candidates(node)
            kinds = [k for k in cands if (want_kind is None or k == want_kind)]
            if not kinds:
                continue
            kind = r.choice(kinds)
            p = r.choice(cands[kind])
            key = p.key if p is not None else None
            if (id(node), key, kind) in used or (id(node), "obj") in used and kind in ("unknown-keyword", "missing-required"):
                continue
            req = vocab.required(node.type)
            if (kind == "missing-required" and any((id(node), rk) in used for rk in req)) or (key in req and (id(node), "req-removed") in used):
                continue  # never combine "required keyword removed" with a fault on that same keyword
            f = _apply(r, node, kind, p)
            if f is None:
                continue
            used.add((id(node), key, kind))
            used.add((id(node), key))
            if kind == "missing-required":
                used.add((id(node), "req-removed"))
            if kind in ("unknown-keyword", "missing-required"):
                used.add((id(node), "obj"))
            faults.append(f)
            break
    return faults


def _replace_or_add(r, node, item):
    for i, it in enumerate(node.items):
        if it.key == item.key and it.kind != "block":
            node.items[i] = item
            return
    node.items.insert(r.randint(0, len(node.items)), item)


def _apply(r, node, kind, p):
    T = gen.Tok
    if kind == "enum":
        w = r.choice(["NOPE", "Bogus", "zzz"])
        if r.random() < 0.25:
            # a word that only LOOKS like a member: long s (U+017F) stays itself when lower-cased
            ms = [m for m in p.enum_members_lower() if isinstance(m, str) and "s" in m]
            if ms:
                w = r.choice(ms).replace("s", "\u017f", 1)
        if w.lower() in p.enum_members_lower():
            return None
        it = gen.Item("attr", p.key, shape="fault:enum", toks=[T("word", w)], value=w)
        _replace_or_add(r, node, it)
        return dict(kind=kind, object=node, key=p.key, name=p.key.upper(), level="keyword", item=it)
    if kind == "range":
        a = next(a for a in p.alts if "minimum" in a.node or "maximum" in a.node)
        if "maximum" in a.node and (r.random() < 0.5 or "minimum" not in a.node):
            v = a.node["maximum"] + r.choice([1, 10, 1000])
        else:
            v = a.node["minimum"] - r.choice([1, 10, 1000])
        t, v = gen.num_tok(int(v) if a.kind == "integer" or float(v).is_integer() else v)
        it = gen.Item("attr", p.key, shape="fault:range", toks=[t], value=v)
        _replace_or_add(r, node, it)
        return dict(kind=kind, object=node, key=p.key, name=p.key.upper(), level="keyword", item=it)
    if kind == "arity":
        n = p.alts[0].info["n"][0]
        m = {2: 3, 4: 2}[n]
        toks, vals = [], []
        for _ in range(m):
            t, v = gen.num_tok(r.randint(5, 50))
            toks.append(t)
            vals.append(v)
        it = gen.Item("attr", p.key, shape="fault:arity", toks=toks, value=vals)
        _replace_or_add(r, node, it)
        return dict(kind=kind, object=node, key=p.key, name=p.key.upper(), level="keyword", item=it)
    if kind == "type":
        if p.kinds() == {"boolean"}:
            t, v = gen.num_tok(r.randint(2, 9))
            it = gen.Item("attr", p.key, shape="fault:type", toks=[t], value=v)
        else:
            s = r.choice(["abc", "not a number", "x1"])
            it = gen.Item("attr", p.key, shape="fault:type", toks=[T("str", s, frozenset({"dq", "sq"}))], value=s)
        _replace_or_add(r, node, it)
        return dict(kind=kind, object=node, key=p.key, name=p.key.upper(), level="keyword", item=it)
    if kind == "unknown-keyword":
        # (the last three LOOK like hidden bookkeeping keys but do not match the schemas' ^__[a-z]+__$: ordinary unknown keywords)
        key = r.choice(["foobar", "notakeyword", "xyzzy", "foobar", "__foo_bar__", "__v2__", "____"])
        if key in vocab.props(node.type):
            return None
        t, v = gen.num_tok(r.randint(1, 9))
        it = gen.Item("attr", key, shape="fault:unknown", toks=[t], value=v)
        lo = 0
        if node.type == "symbol":
            # the parser reads an unknown word directly after SYMBOL as a value (symbol name), not as a keyword
            if not node.items or node.items[0].kind == "block":
                return None
            lo = 1
        node.items.insert(r.randint(lo, len(node.items)), it)
        return dict(kind=kind, object=node, key=key, name=node.type.upper(), level="object", item=it)
    if kind == "missing-required":
        req = vocab.required(node.type)
        before = len(node.items)
        node.items = [it for it in node.items if it.key not in req]
        if len(node.items) == before:
            return None
        return dict(kind=kind, object=node, key=req[0], name=node.type.upper(), level="object", item=None)
    return None
