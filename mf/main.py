"""./check <ID> --tier quick|thorough [--replay FILE]   (parent process: shards, merges, decides)"""
from __future__ import annotations

import argparse
import hashlib
import importlib
import json
import os
import shutil
import subprocess
import sys
import tempfile
import time

from . import core, findings


def main(argv=None):
    ap = argparse.ArgumentParser()
    ap.add_argument("prop")
    ap.add_argument("--tier", default=os.environ.get("VERIF_TIER", "quick"), choices=["quick", "thorough"])
    ap.add_argument("--replay")
    ap.add_argument("--shards", type=int)
    ap.add_argument("--no-evidence", action="store_true")
    a = ap.parse_args(argv)
    prop = a.prop.upper()
    seed = core.seed_from_env()
    core.ensure_deps()
    t0 = time.time()
    mod = importlib.import_module(f"mf.workloads.{prop}")

    known = findings.load(prop)
    gated = sorted(k for k, e in known.items() if e["status"] == "known")

    env = dict(os.environ)
    env["PYTHONHASHSEED"] = env.get("PYTHONHASHSEED", "0")
    env["PYTHONPATH"] = core.VERIF + os.pathsep + env.get("PYTHONPATH", "")
    env["MF_GATED"] = ",".join(findings.all_gates())
    env[core.GUARD] = "1"
    env.setdefault("PYTHONDONTWRITEBYTECODE", "1")

    if a.replay:
        cmd = [core.PY, "-m", "mf.worker", prop, "--tier", a.tier, "--seed", str(seed), "--replay", a.replay]
        p = subprocess.run(cmd, env=env, cwd=core.VERIF)
        sys.exit(p.returncode)

    nshards = a.shards or getattr(mod, "NSHARDS", {"quick": 8, "thorough": 16})[a.tier]
    rundir = os.path.join(core.VERIF, ".run", f"{prop}-{os.getpid()}")
    os.makedirs(rundir, exist_ok=True)
    timeout = getattr(mod, "TIMEOUT", {"quick": 900, "thorough": 7200})[a.tier]
    procs = []
    for i in range(nshards):
        out = os.path.join(rundir, f"shard{i}.json")
        cmd = [core.PY, "-X", "faulthandler", "-m", "mf.worker", prop, "--tier", a.tier, "--seed", str(seed),
               "--shard", str(i), "--nshards", str(nshards), "--out", out]
        log = open(os.path.join(rundir, f"shard{i}.log"), "w")
        procs.append((i, out, log, subprocess.Popen(cmd, env=env, cwd=core.VERIF, stdout=log, stderr=subprocess.STDOUT)))

    res = core.Result()
    deadline = time.time() + timeout
    for i, out, log, p in procs:
        try:
            p.wait(timeout=max(1, deadline - time.time()))
        except subprocess.TimeoutExpired:
            p.kill()
            res.inconclusive_because(f"watchdog: shard {i} exceeded {timeout}s wall clock")
        log.close()
        if os.path.exists(out):
            with open(out) as f:
                res.merge_json(json.load(f))
        else:
            tail = open(log.name).read()[-1500:]
            res.inconclusive_because(f"shard {i} died (rc={p.returncode}) without a result: {tail!r}")

    # ------------------------------------------------------------------------------------------
    # listed known findings: re-run each reproducer; print KNOWN-FINDING while it still fails
    known_lines = []
    if gated:
        core.setup_env()
        from . import known as known_mod

        repro = dict(known_mod.REPRO)
        repro.update(getattr(mod, "KNOWN", {}))
        for key in gated:
            entry = known[key]
            fn = repro.get(key)
            if fn is None:
                res.notes.append(f"known finding {key} has no reproducer in the workload module")
                continue
            try:
                still = fn()
            except Exception as ex:  # the reproducer itself must not take the check down
                still = f"reproducer raised {type(ex).__name__}: {ex}"
            if still:
                known_lines.append(f"KNOWN-FINDING: property={prop} key={key} {entry['text']} [{still}]")
            else:
                res.notes.append(f"listed finding {key} no longer reproduces")

    # ------------------------------------------------------------------------------------------
    floors = getattr(mod, "FLOORS", {}).get(a.tier, {})
    for name, floor in floors.items():
        got = res.counters.get(name, 0) if not name.startswith("distinct:") else len(res.distinct.get(name[9:], ()))
        if got < floor:
            res.inconclusive_because(f"deciding monitor '{name}' evaluated {got} < floor {floor}")

    replay_paths = []
    if res.violations:
        rdir = os.path.join(core.VERIF, "replays", prop)
        os.makedirs(rdir, exist_ok=True)
        for v in res.violations:
            v = dict(v, property=prop, tier=a.tier, seed=seed)
            blob = json.dumps(v, sort_keys=True, default=str, indent=1)
            path = os.path.join(rdir, hashlib.sha1(blob.encode()).hexdigest()[:16] + ".json")
            with open(path, "w") as f:
                f.write(blob)
            replay_paths.append((v["kind"], path))

    wall = time.time() - t0
    if not a.no_evidence:
        write_evidence(mod, prop, a.tier, seed, res, findings.all_gates(), wall, nshards)
    shutil.rmtree(rundir, ignore_errors=True)
    try:
        os.rmdir(os.path.join(core.VERIF, ".run"))
    except OSError:
        pass

    for line in known_lines:
        print(line)
    ev = res.counters.get(getattr(mod, "EVAL_KEY", "evaluations"), 0)
    dn = len(res.distinct.get(getattr(mod, "DISTINCT_KEY", "cases"), ()))
    if res.nviol:
        kinds = {}
        for kind, path in replay_paths:
            kinds.setdefault(kind, path)
        for kind, path in kinds.items():
            print(f"VIOLATION property={prop} replay={os.path.relpath(path, core.VERIF)} kind={kind}")
        print(f"{prop} {a.tier}: VIOLATED - {res.nviol} refuting observations of {len(kinds)} kinds "
              f"in {ev} evaluations ({wall:.1f}s)")
        sys.exit(1)
    if res.inconclusive:
        for r in res.inconclusive[:10]:
            print(f"INCONCLUSIVE property={prop} reason={r}")
        sys.exit(2)
    print(f"{prop} {a.tier}: held on {ev} evaluations, {dn} distinct non-trivial cases ({wall:.1f}s)")
    sys.exit(0)


def write_evidence(mod, prop, tier, seed, res, gated, wall, nshards):
    ek = getattr(mod, "EVAL_KEY", "evaluations")
    dk = getattr(mod, "DISTINCT_KEY", "cases")
    cov = {
        "evaluations": int(res.counters.get(ek, 0)),
        "distinct_nontrivial": len(res.distinct.get(dk, ())),
        "rule": getattr(mod, "RULE", ""),
        "samples": res.samples or ["(no sample recorded)"],
        "exhaustive": bool(getattr(mod, "EXHAUSTIVE", False)),
        "counters": {k: int(v) for k, v in sorted(res.counters.items())},
        "distinct_counts": {k: len(v) for k, v in sorted(res.distinct.items())},
        "maxima": res.maxima,
        "gated_features": gated,
        "domain": getattr(mod, "DOMAIN", []),
        "shards": nshards,
        "verdict": "violated" if res.nviol else ("inconclusive" if res.inconclusive else "held"),
        "inconclusive_reasons": res.inconclusive[:10],
        "notes": res.notes[:40],
    }
    for k, v in res.distinct.items():
        if len(v) <= 80:
            cov.setdefault("distinct_values", {})[k] = sorted(v)
    ev = {
        "property_id": prop,
        "tier": tier,
        "seed": seed,
        "level": getattr(mod, "LEVEL", "exploration"),
        "coverage": cov,
        "assumptions": getattr(mod, "ASSUMPTIONS", []),
        "wall_s": round(wall, 2),
        "violations": int(res.nviol),
    }
    d = os.path.join(core.VERIF, "evidence")
    os.makedirs(d, exist_ok=True)
    fd, tmp = tempfile.mkstemp(dir=d, suffix=".tmp")
    with os.fdopen(fd, "w") as f:
        json.dump(ev, f, indent=1, sort_keys=True, default=str)
        f.write("\n")
    os.replace(tmp, os.path.join(d, f"{prop}.json"))


if __name__ == "__main__":
    main()
