"""Helpers to attach contracts / wrappers to the real functions in place.

`rebind(orig, new)` replaces every module-level binding of `orig` (e.g. mappyfile.update *and*
mappyfile.dictutils.update) so that code under test and the public re-exports both go through the monitor.
Every wrapper counts its evaluations; a count of zero means the monitor was bypassed (=> inconclusive).
"""
from __future__ import annotations

import sys

EVALS = {}


def bump(name, n=1):
    EVALS[name] = EVALS.get(name, 0) + n


def rebind(orig, new, prefix="mappyfile"):
    n = 0
    for mname, mod in list(sys.modules.items()):
        if mod is None or not (mname == prefix or mname.startswith(prefix + ".")):
            continue
        for attr, val in list(vars(mod).items()):
            if val is orig:
                setattr(mod, attr, new)
                n += 1
    return n


def rebind_method(cls, name, new):
    setattr(cls, name, new)
