"""M3 - sys.monitoring tools (Python 3.12): logical step counter and seeded yield injector.

StepCounter counts PY_START | PY_RESUME | PY_THROW events (function activations) process-wide: logical time that is
independent of machine load.  YieldInjector is a LINE callback restricted to code objects under mappyfile/ that, with a
seeded probability, calls time.sleep(0) (forcing a GIL hand-off) and records the thread switches it actually observed.
"""
from __future__ import annotations

import os
import random
import sys
import threading
import time

mon = sys.monitoring


class StepCounter:
    TOOL = 3

    def __init__(self):
        self.n = 0
        self.active = False

    def _cb(self, code, offset, *a):
        self.n += 1

    def start(self):
        if self.active:
            return
        mon.use_tool_id(self.TOOL, "mf-steps")
        ev = mon.events.PY_START | mon.events.PY_RESUME | mon.events.PY_THROW
        mon.register_callback(self.TOOL, mon.events.PY_START, self._cb)
        mon.register_callback(self.TOOL, mon.events.PY_RESUME, self._cb)
        mon.register_callback(self.TOOL, mon.events.PY_THROW, self._cb)
        mon.set_events(self.TOOL, ev)
        self.active = True

    def stop(self):
        if not self.active:
            return
        mon.set_events(self.TOOL, 0)
        mon.free_tool_id(self.TOOL)
        self.active = False


class YieldInjector:
    TOOL = 4

    def __init__(self, prefix, p=0.02, seed=0):
        self.prefix = prefix
        self.p = p
        self.rnd = random.Random(seed)
        self.lock = threading.Lock()
        self.events = 0
        self.injected = 0
        self.switches = 0
        self.sites = set()
        self.last = None  # (thread id, file:line)
        self.active = False
        self.fn_sites = set()
        self.every = max(2, int(round(1.0 / p)))
        self.phase = self.rnd.randrange(self.every)

    def _line(self, code, line):
        """LINE callback.  Kept as cheap as possible: no lock (the counters are evidence, a lost update only makes them a lower
        bound - the verdict never depends on them) and a deterministic 'every k-th event' yield derived from the seeded p."""
        fn = code.co_filename
        if not fn.startswith(self.prefix):
            return mon.DISABLE
        tid = threading.get_ident()
        last = self.last
        if last is not None and last[0] != tid:
            self.switches += 1
            if len(self.sites) < 50000:
                self.sites.add(((os.path.basename(last[1]), last[2]), (os.path.basename(fn), line)))
        self.last = (tid, fn, line)
        self.events += 1
        if self.events % self.every == self.phase:
            self.injected += 1
            time.sleep(0)

    def start(self):
        mon.use_tool_id(self.TOOL, "mf-yield")
        mon.register_callback(self.TOOL, mon.events.LINE, self._line)
        mon.set_events(self.TOOL, mon.events.LINE)
        self.active = True

    def stop(self):
        if self.active:
            mon.set_events(self.TOOL, 0)
            mon.free_tool_id(self.TOOL)
            self.active = False
