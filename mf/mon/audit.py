"""M4 observers: records of the `mappyfile` logger and `open` audit events."""
from __future__ import annotations

import logging
import os
import sys
import threading


class LogObserver(logging.Handler):
    """Collects WARNING/ERROR records of logger 'mappyfile' (duplicate-key warnings, printer 'key not found' errors)."""

    def __init__(self, level=logging.WARNING):
        super().__init__(level)
        self.records = []
        logging.getLogger("mappyfile").addHandler(self)
        if logging.getLogger("mappyfile").level == 0 or logging.getLogger("mappyfile").level > level:
            logging.getLogger("mappyfile").setLevel(level)

    def emit(self, record):
        try:
            msg = record.getMessage()
        except Exception:
            msg = str(record.msg)
        self.records.append((record.levelname, msg))

    def take(self):
        out, self.records = self.records, []
        return out


class OpenAudit:
    """sys.addaudithook observer for 'open' events (audit hooks cannot be removed: one per process, switchable)."""

    _installed = None

    def __init__(self):
        self.events = []
        self.active = False
        self.lock = threading.Lock()

    @classmethod
    def get(cls):
        if cls._installed is None:
            inst = cls()

            def hook(event, args):
                if inst.active and event == "open":
                    path, mode = args[0], args[1]
                    if isinstance(path, (str, bytes, os.PathLike)):
                        with inst.lock:
                            inst.events.append((os.fspath(path), mode, threading.get_ident()))

            sys.addaudithook(hook)
            cls._installed = inst
        return cls._installed

    def start(self):
        with self.lock:
            self.events = []
        self.active = True

    def stop(self):
        self.active = False
        with self.lock:
            out, self.events = self.events, []
        return out
