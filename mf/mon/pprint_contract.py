"""icontract postcondition on the real PrettyPrinter.pprint: every returned text is read back by the independent
reader and walked in lock-step with the dictionary that was printed (mf/printcheck.py).  The condition records
and returns True, so one violation never masks the rest; C03 judges .content, C16 judges .layout."""
from __future__ import annotations

from .. import printcheck
from . import contracts

REPORTS = []
KEEP = {"on": True}


class PprintContractBroken(Exception):
    pass


def post_pprint(self, composites, result):
    contracts.bump("pprint")
    opts = dict(quote=self.quoter.quote, newlinechar=self.newlinechar, indent=self.indent, unit=self.spacer,
                spacer=None, end_comment=self.end_comment, align_values=self.align_values)
    try:
        rep = printcheck.check(composites, result, opts)
    except Exception as ex:  # the monitor must never raise into the code it observes
        rep = printcheck.Report()
        rep.skipped = f"monitor error {type(ex).__name__}: {ex}"
        contracts.bump("pprint-monitor-error")
    if KEEP["on"]:
        REPORTS.append((rep, result, opts))
    return True


def attach():
    import icontract
    from mappyfile.pprint import PrettyPrinter

    if getattr(PrettyPrinter, "_mf_pp", False):
        return
    PrettyPrinter.pprint = icontract.ensure(post_pprint, error=PprintContractBroken)(PrettyPrinter.pprint)
    PrettyPrinter._mf_pp = True


def take():
    out = list(REPORTS)
    REPORTS.clear()
    return out
