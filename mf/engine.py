"""Reused mappyfile worker objects (the same code path as loads/dumps, ~300x faster than rebuilding the Lark
grammar per call).  A sampled fraction of calls goes through the public fresh-object functions; that reuse is
safe is what C12 checks."""
from __future__ import annotations

import copy
import itertools
import random
import re

_DIRECTIVE = re.compile(r"(?im)^\s*include\b")


class Engine:
    def __init__(self, public_every=50):
        import mappyfile
        from mappyfile.parser import Parser
        from mappyfile.pprint import PrettyPrinter
        from mappyfile.transformer import MapfileToDict
        from mappyfile.validator import Validator

        self.mf = mappyfile
        self.Parser, self.M2D, self.PP, self.Validator = Parser, MapfileToDict, PrettyPrinter, Validator
        self._parsers = {}
        self._m2d = {}
        self._pp = {}
        self._validator = None
        self.public_every = public_every
        self._n = itertools.count(1)
        self.public_calls = 0

    def _public(self):
        if self.public_every and next(self._n) % self.public_every == 0:
            self.public_calls += 1
            return True
        return False

    def loads(self, text, include_position=False, include_comments=False, expand_includes=None, force_public=False):
        if expand_includes is None:
            # the public default (expand_includes=True: every text passes through the include pre-pass) unless the text holds a
            # directive line - those documents are C15's business and would need their files
            expand_includes = not _DIRECTIVE.search(text)
        if force_public or self._public():
            return self.mf.loads(text, expand_includes=expand_includes, include_position=include_position,
                                 include_comments=include_comments)
        pk = (expand_includes, include_comments)
        p = self._parsers.get(pk)
        if p is None:
            p = self._parsers[pk] = self.Parser(expand_includes=expand_includes, include_comments=include_comments)
        mk = (include_position, include_comments)
        m = self._m2d.get(mk)
        if m is None:
            m = self._m2d[mk] = self.M2D(include_position=include_position, include_comments=include_comments)
        return m.transform(p.parse(text))

    def printer(self, **opts):
        k = tuple(sorted(opts.items()))
        pp = self._pp.get(k)
        if pp is None:
            pp = self._pp[k] = self.PP(**opts)
        return pp

    def dumps(self, d, force_public=False, **opts):
        if force_public or self._public():
            return self.mf.dumps(d, **opts)
        return self.printer(**opts).pprint(d)

    @property
    def validator(self):
        if self._validator is None:
            self._validator = self.Validator()
        return self._validator


# ------------------------------------------------------------------------------------------------
# formatter option space (W-options)

INDENTS = list(range(0, 9))
SPACERS = [" ", "\t"]
QUOTES = ['"', "'"]
NEWLINES = ["\n", "\r\n", " "]
BOOLS = [False, True]


def all_option_sets():
    out = []
    for indent, spacer, quote, nl, ec, av, sc in itertools.product(INDENTS, SPACERS, QUOTES, NEWLINES, BOOLS, BOOLS, BOOLS):
        out.append(dict(indent=indent, spacer=spacer, quote=quote, newlinechar=nl, end_comment=ec, align_values=av,
                        separate_complex_types=sc))
    return out


REPO_TEST_SETS = [dict(indent=0, spacer=" ", quote='"', newlinechar=" ", end_comment=False, align_values=False, separate_complex_types=False),
                  dict(indent=4, spacer=" ", quote='"', newlinechar="\n", end_comment=True, align_values=False, separate_complex_types=False),
                  dict(indent=4, spacer=" ", quote='"', newlinechar="\n", end_comment=False, align_values=True, separate_complex_types=True),
                  dict(indent=1, spacer="\t", quote="'", newlinechar="\n", end_comment=False, align_values=False, separate_complex_types=False)]


def covering_option_sets(r: random.Random, n=40):
    """A seeded subset in which every pair of option values occurs together at least once (greedy pairwise cover),
    plus the four sets the repository's own tests use."""
    names = ["indent", "spacer", "quote", "newlinechar", "end_comment", "align_values", "separate_complex_types"]
    doms = [INDENTS, SPACERS, QUOTES, NEWLINES, BOOLS, BOOLS, BOOLS]
    need = set()
    for i in range(len(names)):
        for j in range(i + 1, len(names)):
            for a in doms[i]:
                for b in doms[j]:
                    need.add((i, repr(a), j, repr(b)))
    out = [dict(s) for s in REPO_TEST_SETS]

    def pairs_of(s):
        vals = [s[nm] for nm in names]
        return {(i, repr(vals[i]), j, repr(vals[j])) for i in range(len(names)) for j in range(i + 1, len(names))}

    for s in out:
        need -= pairs_of(s)
    while need and len(out) < 200:
        best, bestgain = None, -1
        for _ in range(30):
            cand = {nm: r.choice(dom) for nm, dom in zip(names, doms)}
            g = len(pairs_of(cand) & need)
            if g > bestgain:
                best, bestgain = cand, g
        out.append(best)
        need -= pairs_of(best)
    while len(out) < n:
        out.append({nm: r.choice(dom) for nm, dom in zip(names, doms)})
    return out


def opt_key(o):
    return "i%d %s q%s nl%s ec%d av%d sc%d" % (o["indent"], "tab" if o["spacer"] == "\t" else "sp", "d" if o["quote"] == '"' else "s",
                                                {"\n": "LF", "\r\n": "CRLF", " ": "SP"}[o["newlinechar"]], o["end_comment"],
                                                o["align_values"], o["separate_complex_types"])
